#!/usr/bin/env python3
"""Regenerates MANIFEST.json from the table below (single source of truth for the interface)."""
import json, os, sys
V = os.path.dirname(os.path.abspath(__file__))
props = [json.loads(l) for l in open(os.path.join(V, "properties.jsonl"))]

# id -> dict(category, technique, text, note, design, engine)
CLAIMS = {}
exec(open(os.path.join(V, "claims.py")).read())

checks, na = [], []
for p in props:
    i = p["id"]
    c = CLAIMS.get(i)
    if not c or not os.path.exists(os.path.join(V, "checks", i + ".py")):
        na.append(dict(property_id=i, reason=(c or {}).get("na", "check not built yet in this round; see DESIGN.md section 9 for the plan")))
        continue
    checks.append(dict(property_id=i, quick_cmd="bin/check %s --tier quick" % i,
                       thorough_cmd="bin/check %s --tier thorough" % i,
                       evidence_file="evidence/%s.json" % i,
                       replay_cmd_template="bin/check %s --replay {path}" % i,
                       engine=c["engine"], technique=c["technique"],
                       level_claimed=dict(category=c["category"], text=c["text"], design_ref=c["design"]),
                       level_note=c["note"]))
m = dict(version=1,
         setup_cmd="python3 -m vp.build native",
         hooks=dict(guard="SNAPRAID_VERIF",
                    enable="checks compile /repo's sources themselves (vp/build.py) with -DSNAPRAID_VERIF; no guarded source hook exists at present: all seams are LD_PRELOAD / link-time interposition",
                    baseline_off_cmd="cd /repo && make check",
                    source_commits=[], add_only=True),
         engines=[
             dict(name="arraymc", path="vp/lab.py", kind_free_text="explicit-state search over operation histories; transition function = the real snapraid CLI on tiny arrays; oracles independent (vp/content.py, vp/parity.py, native/vpref.c)"),
             dict(name="crashmc", path="native/libvp.c", kind_free_text="enumeration of every state-changing syscall index x {kill before, after, torn} and every failing pread/pwrite via LD_PRELOAD"),
             dict(name="raidmc", path="native/raidmc.c", kind_free_text="exhaustive enumeration of table entries, generator/decoder variants x geometries x erasure sets, all square minors"),
             dict(name="schedmc", path="native/vpsched.c", kind_free_text="cooperative scheduler, preemption-bounded / state-hashed exhaustive exploration of thread interleavings of the real io.c"),
             dict(name="bytemc", path="native/bytemc.c", kind_free_text="every bit flip / truncation / byte value of content files through the real loader under ASan"),
         ],
         checks=checks, not_applicable=na,
         notes="See DESIGN.md. Every check rebuilds snapraid from /repo's working tree into /verif/build (hash keyed).")
json.dump(m, open(os.path.join(V, "MANIFEST.json"), "w"), indent=1)
print("checks:", [c["property_id"] for c in checks], "na:", len(na))
