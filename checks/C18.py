"""C18  Include/exclude and selection filters follow the documented rules.

Part 1 (bytemc harness on the real filter functions of elem.c): ALL rule lists up to a length over a pattern
alphabet (both directions) x ALL paths of a 3-level tree, for files, directories and empty directories, against
vp/rules.py (written from the manual).  Part 2: the same rules end to end through sync + list, plus nohidden and the
tool's own content / tmp / lock files.  Part 3: every combination of -f -d -m -e selects exactly the predicted files
in check.
"""
import itertools, os, subprocess
from vp import lab as labmod, explore as X, content as C, par, build, rules as R
from vp.lab import Config

LEVEL = "exploration"
BUDGET = {"quick": 240, "thorough": 1800}

NAMES = ["a", "ab", "d", "x.t"]
PATTERNS = ["*.t", "a?", "a*", "[ab]*", "\\*", "d", "ab", "*", "d/", "a*/", "[!d]/", "/d/", "/d/ab", "/*/ab", "/d/*/", "/a/d/", "/d/d/x.t",
            "/*.t", "/d/*", "/*/*/a", "?", "/?/", "x.[st]", "/d/a?"]
CORE = ["*.t", "a?", "d/", "a*/", "/d/", "/d/ab", "/*/ab", "/d/*/", "/*.t", "/*/*/a", "*", "[ab]*"]
INVALID = ["", "d/a", "a/b/", "./a", "/../a", "/d/./a", "/d//a", "..", ".", "a/..", "/..."]


def all_paths():
    files, dirs = [], []
    for depth in (1, 2, 3):
        for comps in itertools.product(NAMES, repeat=depth):
            p = "/".join(comps)
            files.append(p)
            if depth < 3:
                dirs.append(p)
    return files, dirs


class Harness:
    def __init__(self):
        exe = build.harness("filtermc", "filtermc.c")
        self.p = subprocess.Popen([exe], stdin=subprocess.PIPE, stdout=subprocess.PIPE, bufsize=0)

    def batch(self, lines):
        """send lines, read as many answer lines"""
        data = ("\n".join(lines) + "\nF\n").encode()
        self.p.stdin.write(data)
        out = []
        for _ in lines:
            out.append(self.p.stdout.readline().decode().rstrip("\n"))
        return out

    def close(self):
        try:
            self.p.stdin.write(b"Q\n")
            self.p.stdin.close()
            self.p.wait(5)
        except Exception:
            self.p.kill()


def harness_job(j):
    lists, files, dirs = j
    H = Harness()
    viols = []
    n = judged = skipped = 0
    try:
        for rl in lists:
            cmds = ["C"] + ["R\t%s\t%s" % ("+" if d > 0 else "-", p) for d, p in rl]
            ans = H.batch(cmds)
            parsed = [(d, R.parse(p)) for d, p in rl]
            ok = True
            for (d, p), a, pr in zip(rl, ans[1:], parsed):
                tool_ok = a == "R ok"
                if tool_ok != (pr[1] is not None):
                    viols.append(dict(kind="pattern-validity", rules=rl, pattern=p, tool=a, manual="valid" if pr[1] is not None else "invalid"))
                    ok = False
            if not ok or any(pr[1] is None for pr in parsed):
                continue
            rr = [(d, pr) for d, pr in parsed]
            q = ["P\t" + f for f in files] + ["D\t" + d for d in dirs] + ["E\t" + d for d in dirs]
            res = H.batch(q)
            k = 0
            tool_dir = {}
            for d_, a in zip(dirs, res[len(files):len(files) + len(dirs)]):
                tool_dir[d_] = (a == "0")
                want = R.dir_included(rr, d_)
                n += 1
                if (a == "0") != want:
                    viols.append(dict(kind="subdir", rules=rl, path=d_, tool=a, want=want))
            for f, a in zip(files, res[:len(files)]):
                n += 1
                A = R.file_included_first_match(rr, f)
                B = R.file_included_walk(rr, f)
                comps = f.split("/")
                tool_walk = (a == "0") and all(tool_dir["/".join(comps[:k2])] for k2 in range(1, len(comps)))
                if (a == "0") != A:
                    viols.append(dict(kind="file-first-match", rules=rl, path=f, tool=a, want=A))
                if A == B:
                    judged += 1
                    if tool_walk != A:
                        viols.append(dict(kind="file-through-walk", rules=rl, path=f, tool=tool_walk, want=A))
                else:
                    skipped += 1        # the two documented readings disagree: not judged (see DESIGN, C18 S)
            for d_, a in zip(dirs, res[len(files) + len(dirs):]):
                n += 1
                want = R.emptydir_included(rr, d_)
                if (a == "0") != want:
                    viols.append(dict(kind="emptydir", rules=rl, path=d_, tool=a, want=want))
    finally:
        H.close()
    return dict(viols=viols[:50], nviol=len(viols), n=n, judged=judged, skipped=skipped, lists=len(lists))


# ----------------------------------------------------------------------------- part 2: end to end

def tree_ops(files):
    ops = []
    for i, f in enumerate(files):
        ops.append(("write", "d1", f + ".f", 10 + (i % 7), 0))      # files get a suffix so that a name can be both dir and file
    return ops


def e2e_job(j):
    rl, nohidden, seed = j
    lines = [("include " if d > 0 else "exclude ") + p for d, p in rl]
    cfg = Config(levels=1, ndisks=2, rules=lines, nohidden=nohidden, contents=["c0/content", "d1/.content", "d1/sub/content.copy"])
    viols = []
    with labmod.Lab(cfg, seed=seed) as L:
        files = []
        for depth in (1, 2, 3):
            for comps in itertools.product(NAMES[:3] + ["x.t"], repeat=depth):
                if depth == 3 and comps[0] not in ("a", "d"):
                    continue
                files.append("/".join(comps[:-1] + (comps[-1] + ("" if depth == 1 and False else ""),)))
        # a name cannot be both a file and a directory: files live as <dirpath>/<name> only where <dirpath>/<name> is not a dir
        dirset = {"/".join(f.split("/")[:k]) for f in files for k in range(1, len(f.split("/")))}
        files = [f for f in files if f not in dirset]
        hidden = [".hid", "a/.hidden", ".hdir/inside"]
        for i, f in enumerate(files + hidden):
            if i % 3 == 1:
                # every third entry is a symbolic link: the rules judge it like a file, by its path from the disk root
                L.symlink("d1", f, "/nonexistent/target-%d" % i)
            else:
                L.write("d1", f, L.gen(f, 10 + i % 5))
        L.write("d2", "anchor", L.gen("anchor", 100))
        L.mkdir("d1", "d/emptyd")
        L.mkdir("d1", ".hemptyd")
        # the tool's own files on a data disk
        L.write("d1", "sub/content.copy.tmp", b"stale tmp", record=False)
        r = L.run("sync")
        if r.rc != 0:
            return dict(viols=[dict(kind="sync-failed", rules=rl, out=r.text()[-300:])], n=0)
        c = L.content()
        d1 = c.disks.get(b"d1")       # (a disk of which nothing was recorded is not saved at all)
        recorded = ({f.sub.decode() for f in d1.files} | {sub.decode() for k_, sub, to_ in d1.links}) if d1 else set()
        rec_dirs = {d.decode() for d in d1.dirs} if d1 else set()
        rr = [(d, R.parse(p)) for d, p in rl]
        own = {".content", ".content.lock", ".content.tmp", "sub/content.copy", "sub/content.copy.tmp", "sub/content.copy.lock"}
        want = set()
        skipped = 0
        for f in files + hidden:
            if nohidden and any(comp.startswith(".") for comp in f.split("/")):
                continue
            A = R.file_included_first_match(rr, f)
            B = R.file_included_walk(rr, f)
            if A != B:
                skipped += 1
                if f in recorded:
                    recorded.discard(f)
                continue
            if A:
                want.add(f)
        leaked = recorded & own
        if leaked:
            viols.append(dict(kind="own-files-recorded", rules=rl, files=sorted(leaked)))
        recorded -= own
        if recorded != want:
            viols.append(dict(kind="e2e-recorded-set", rules=rl, nohidden=nohidden, only_tool=sorted(recorded - want)[:5],
                              only_manual=sorted(want - recorded)[:5]))
        for dname in ("d/emptyd", ".hemptyd"):
            if nohidden and dname.startswith("."):
                exp = False
            else:
                # while scanning, an empty directory is recorded when it is entered (directories are entered by default)
                exp = all(R.dir_included(rr, "/".join(dname.split("/")[:k])) for k in range(1, len(dname.split("/")) + 1))
            if (dname in rec_dirs) != exp:
                viols.append(dict(kind="e2e-emptydir", rules=rl, dir=dname, tool=dname in rec_dirs, want=exp))
    return dict(viols=viols, n=len(files) + len(hidden))


# ----------------------------------------------------------------------------- part 3: selection

def L_exists_before(saved, disk, sub):
    return ("%s/%s" % (disk, sub)) in saved["ents"]


def sel_job(j):
    opts, seed = j
    cfg = Config(levels=1, ndisks=2)
    viols = []
    with labmod.Lab(cfg, seed=seed) as L:
        files = {"d1": ["a", "ab", "dir/a", "dir/x.t", "keep"], "d2": ["a", "x.t", "dir/ab"]}
        for d, fs in files.items():
            for f in fs:
                L.write(d, f, L.gen(d + f, 1500))
        L.symlink("d1", "lnk", "a")
        L.symlink("d2", "dir/lnk2", "../a")
        L.symlink("d2", "dangling", "nowhere")        # recorded dangling; re-pointed (still dangling) before the commands: present, not missing
        L.mkdir("d1", "emptyA")
        L.mkdir("d2", "dir/emptyB")
        L.run("sync")
        c = L.content()
        # damage: one missing file per disk, one silently corrupted file marked bad by a scrub
        from vp import faults as F
        f_bad = next(x for x in c.disks[b"d1"].files if x.sub == b"ab")
        F.damage_data_block(L, c, "d1", f_bad.blocks[0][1], "whole")
        # a second file marked bad by the same scrub, which the user then REWRITES (new time-stamp): -e / -b speak of files not
        # modified since the last sync, so this one is outside every selection that contains -e
        f_bad2 = next(x for x in c.disks[b"d2"].files if x.sub == b"dir/ab")
        F.damage_data_block(L, c, "d2", f_bad2.blocks[0][1], "whole")
        L.run("scrub", "-p", "full")
        L.write("d2", "dir/ab", L.gen("rewritten-by-user", 1500))
        L.rm("d1", "dir/a")
        L.rm("d2", "x.t")
        for d_, p_ in (("d1", "lnk"), ("d2", "dir/lnk2"), ("d1", "emptyA"), ("d2", "dir/emptyB")):
            L.rm(d_, p_)
        L.rm("d2", "dangling")
        L.symlink("d2", "dangling", "elsewhere")
        c = L.content()
        # and one silently wrong parity block in a stripe none of whose files is missing or marked bad: a selection that leaves
        # the parity out (-f, -m, -d DATADISK) must leave it exactly as it is
        gone = {("d1", "dir/a"), ("d2", "x.t")}
        bad0 = {i for i, inf in enumerate(c.info) if inf is not None and inf[1]}
        busy = {pos for d in c.disks.values() for f in d.files for _, pos, _ in f.blocks if (d.name.decode(), f.sub.decode()) in gone} | bad0
        quiet = [pos for pos in sorted(F.used_stripes(c)) if pos not in busy]
        if quiet:
            F.damage_parity_block(L, c, 0, quiet[-1], "flip0")
        S = L.save()
        bad_pos = {i for i, inf in enumerate(c.info) if inf is not None and inf[1]}
        r = L.run("check", "-v", *opts)
        if "You cannot use" in r.text():
            return dict(viols=[], n=0, refused=True)    # the tool rejects this option combination outright
        processed = set()
        for t in r.tags.get("status"):
            if len(t) >= 4:
                processed.add((t[2].decode(), t[3].decode()))
        want = set()
        fpat, dsel, miss, err = [], None, False, False
        i = 0
        while i < len(opts):
            if opts[i] == "-f":
                fpat.append(opts[i + 1]); i += 2
            elif opts[i] == "-d":
                dsel = opts[i + 1]; i += 2
            elif opts[i] == "-m":
                miss = True; i += 1
            elif opts[i] == "-e":
                err = True; i += 1
            else:
                i += 1
        for d in c.disks.values():
            dn = d.name.decode()
            for f in d.files:
                sub = f.sub.decode()
                ok = True
                if fpat:
                    rr = [(1, R.parse(p)) for p in fpat]
                    ok = ok and any(R.rule_matches_file(rule, sub) for _, rule in rr)
                if dsel is not None:
                    ok = ok and dn == dsel
                if miss:
                    ok = ok and not L.exists(dn, sub)
                if err:
                    ok = ok and any(pos in bad_pos for _, pos, _ in f.blocks)
                    # ... and still the file of the last sync (same size and time-stamp)
                    try:
                        st_ = os.lstat(L.p(dn, sub))
                        ok = ok and st_.st_size == f.size and st_.st_mtime_ns // 10**9 == f.mtime_sec
                    except OSError:
                        ok = False
                if ok:
                    want.add((dn, sub))
        if processed != want:
            viols.append(dict(kind="selection-set", opts=opts, only_tool=sorted(processed - want), only_manual=sorted(want - processed)))
        ch = r.changed() - {"c0/content.lock"}
        if ch:
            viols.append(dict(kind="check-wrote", opts=opts, paths=sorted(ch)))
        # the same selection in fix: nothing outside it is written (files, links and empty directories)
        L.restore(S)
        par_before = [labmod._slurp(p_) for p_ in L.parity_paths(0)]
        rf = L.run("fix", *opts)
        parity_selected = not (fpat or miss or (dsel is not None and dsel in L.cfg.disknames))
        if not parity_selected and [labmod._slurp(p_) for p_ in L.parity_paths(0)] != par_before:
            viols.append(dict(kind="fix-wrote-parity-outside-selection", opts=opts))
        sel_links, sel_dirs = set(), set()
        frules = [(1, R.parse(p)) for p in fpat]
        for d in c.disks.values():
            dn = d.name.decode()
            for kind_, sub_, to_ in d.links:
                sub = sub_.decode()
                ok = (not fpat or R.file_included_first_match(frules, sub)) and (dsel is None or dn == dsel) and (not miss or not L_exists_before(S, dn, sub))
                if ok:
                    sel_links.add((dn, sub))
            for sub_ in d.dirs:
                sub = sub_.decode()
                ok = (not fpat or R.emptydir_included(frules, sub)) and (dsel is None or dn == dsel) and (not miss or not L_exists_before(S, dn, sub))
                if ok:
                    sel_dirs.add((dn, sub))
        allowed = set()
        for dn, sub in want | sel_links | sel_dirs:
            parts = sub.split("/")
            for k in range(1, len(parts) + 1):
                allowed.add("%s/%s" % (dn, "/".join(parts[:k])))
            allowed.add("%s/%s.unrecoverable" % (dn, sub))
        for rel in sorted(rf.changed()):
            top = rel.split("/", 1)[0]
            if top in L.cfg.disknames and rel not in allowed:
                viols.append(dict(kind="fix-wrote-outside-selection", opts=opts, path=rel))
    return dict(viols=viols, n=len(want))


def run(ctx):
    tier = ctx.tier
    files, dirs = all_paths()
    alpha = [(d, p) for p in PATTERNS for d in (1, -1)]
    core = [(d, p) for p in CORE for d in (1, -1)]
    lists = [()] + [(a,) for a in alpha] + [(a, b) for a in alpha for b in alpha]
    if tier == "quick":
        lists += [(a, b, c) for a in core for b in core for c in core]
    else:
        lists += [(a, b, c) for a in alpha for b in alpha for c in alpha]
    inval = [((1, p),) for p in INVALID] + [((-1, p),) for p in INVALID]
    ctx.set("rule", "part 1: all rule lists of length <=2 over %d patterns x 2 directions + length 3 over a %d-pattern core (thorough: length 3 over all patterns), "
                    "%d invalid patterns; x all %d file paths and %d directory paths of a 3-level tree over names %r; verdicts of "
                    "filter_path / filter_subdir / filter_emptydir and of the composed walk. part 2: every single rule and selected "
                    "pairs end to end through sync + content decode, with/without nohidden and with the tool's own files on a data "
                    "disk. part 3: all 16 combinations of -f/-d/-m/-e (x2 patterns) in check -v. non-trivial = (rule list, path) pairs"
                    % (len(PATTERNS), len(CORE), len(INVALID), len(files), len(dirs), NAMES))
    build.harness("filtermc", "filtermc.c")
    chunk = 400
    jobs = [(lists[i:i + chunk], files, dirs) for i in range(0, len(lists), chunk)] + [(inval, files, dirs)]
    evals = judged = skipped = 0
    done = 0
    for j, r in par.pmap(harness_job, jobs, deadline=ctx.deadline):
        done += 1
        evals += r["n"]
        judged += r["judged"]
        skipped += r["skipped"]
        for v in r["viols"]:
            ctx.violation("C18/harness/%s" % v["kind"], "%s: rules %r path %r tool=%r manual=%r" % (
                v["kind"], v.get("rules"), v.get("path", v.get("pattern")), v.get("tool"), v.get("want", v.get("manual"))),
                dict(part="harness", rules=v.get("rules"), violation=v))
    if done < len(jobs):
        ctx.cap("part 1: deadline (%d of %d chunks of %d rule lists)" % (done, len(jobs), chunk))
    ctx.set("rule_lists", len(lists) + len(inval))
    ctx.set("harness_verdicts", evals)
    ctx.set("walk_cases_judged", judged)
    ctx.set("walk_cases_not_judged_ambiguous_manual", skipped)
    for i, rl in enumerate(lists[:20000:7]):
        ctx.nontrivial(("list", rl))
    ctx.sample(dict(part="harness", rules=lists[57], paths=files[:5]))
    # ---- part 2
    single = [((d, p),) for p in PATTERNS for d in (1, -1)]
    pairs = [((-1, "*.t"), (1, "/d/")), ((1, "/d/"), (-1, "*.t")), ((-1, "d/"), (1, "a*")), ((1, "a*"), (-1, "d/")),
             ((-1, "/d/ab"), (-1, "a?")), ((1, "/*/ab"), (1, "/d/*/"))]
    jobs2 = [(rl, nh, ctx.seed) for rl in [()] + single + pairs for nh in (False, True)]
    n2 = 0
    for j, r in par.pmap(e2e_job, jobs2, deadline=ctx.deadline):
        n2 += 1
        evals += r["n"]
        ctx.nontrivial(("e2e", j[0], j[1]))
        for v in r["viols"]:
            ctx.violation("C18/e2e/%s" % v["kind"], "%s: %r" % (v["kind"], {k: x for k, x in v.items() if k != "kind"}),
                          dict(part="e2e", rules=j[0], nohidden=j[1], violation=v))
    if n2 < len(jobs2):
        ctx.cap("part 2: deadline (%d of %d)" % (n2, len(jobs2)))
    ctx.set("e2e_runs", n2)
    ctx.sample(dict(part="e2e", rules=jobs2[5][0], nohidden=jobs2[5][1]))
    # ---- part 3
    combos = []
    for fp in (None, "a", "*.t", "/dir/a*"):
        for ds in (None, "d1"):
            for m in (False, True):
                for e in (False, True):
                    o = []
                    if fp:
                        o += ["-f", fp]
                    if ds:
                        o += ["-d", ds]
                    if m:
                        o.append("-m")
                    if e:
                        o.append("-e")
                    combos.append(tuple(o))
    n3 = 0
    for j, r in par.pmap(sel_job, [(o, ctx.seed) for o in combos], deadline=ctx.deadline):
        n3 += 1
        evals += 1
        ctx.nontrivial(("sel", j[0]))
        for v in r["viols"]:
            ctx.violation("C18/selection/%s" % v["kind"], "%s: %r" % (v["kind"], {k: x for k, x in v.items() if k != "kind"}),
                          dict(part="selection", opts=j[0], violation=v))
    ctx.set("selection_combinations", n3)
    ctx.set("evaluations", evals)
    ctx.assumptions += ["where 'first match decides' and 'a directory pattern takes everything below' give different answers for a file "
                        "(an earlier file rule includes it, a later directory rule excludes its directory) the manual is ambiguous and the case is not judged",
                        "directories are entered by default so that rules can apply below (manual and code comment)",
                        "fix's side of the selection (nothing outside the selection is written) is enforced by C05's filter menu"]


def replay(r):
    files, dirs = all_paths()
    if r["part"] == "harness":
        rl = tuple((d, p) for d, p in r["rules"])
        out = harness_job(([rl], files, dirs))
    elif r["part"] == "e2e":
        out = e2e_job((tuple((d, p) for d, p in r["rules"]), r["nohidden"], 0))
    else:
        out = sel_job((tuple(r["opts"]), 0))
    for v in out["viols"]:
        print("  ", v)
    return not out["viols"]
