"""C19  Move, copy and import shortcuts never accept unverified data  (arraymc: decoy matrix).

Every combination of {where the look-alike lands} x {zero / non-zero sub-second stamp} x {true copy, decoy differing
in the first / last / middle block} x {source fully hashed, source partially hashed} x {sync, sync -h, sync -N} is
executed; afterwards the original is lost (alone, and together with all parity) and fix / fix -i are run with the
decoy still lying around in the array and in an import directory.
"""
import itertools, os
from vp import lab as labmod, explore as X, faults as F, content as C, par, parity as P
from vp.lab import Config
from checks import C05

LEVEL = "model_checking"
BUDGET = {"quick": 240, "thorough": 1500}

TARGETS = {"other-disk-same-path": ("d2", "dir/a"), "other-disk-other-dir": ("d2", "elsewhere/a"),
           "same-disk-other-dir": ("d1", "copy/a"), "other-disk-other-name": ("d2", "dir/renamed")}
DECOYS = ["none", "first", "last", "middle"]
FLAVOURS = [("sync",), ("sync", "-h"), ("sync", "-N")]
SIZE = 2500


def build(L, nsec, partial, long_on=None):
    """base array; returns mtime of the original"""
    for d in L.cfg.disknames:
        X.apply_op(L, ("write", d, "anchor", 700, 0))
    X.apply_op(L, ("write", "d2", "other", 3000, 0))
    if long_on:
        # a long synced file on the disk that will NOT receive the look-alike: whatever stripes the look-alike is allocated
        # on (the first free positions of its own, shorter disk), this disk has synced blocks there
        X.apply_op(L, ("write", long_on, "big", 30000, 0))
    r = L.run("sync")
    assert r.rc == 0, r.text()
    mt = X.file_mtime_ns("dir/a", SIZE, 0, nsec)
    L.write("d1", "dir/a", X.file_bytes(L, "dir/a", SIZE, 0), mt)
    if partial:
        # only the first stripe range is processed: the source keeps unhashed (CHG) blocks
        r = L.run("sync", "-B", "2")
    else:
        r = L.run("sync")
    assert r.rc == 0, r.text()
    return mt


def decoy_bytes(orig, kind, bs=1024):
    if kind == "none":
        return orig
    b = bytearray(orig)
    if kind == "first":
        b[0] ^= 0xff
    elif kind == "last":
        b[-1] ^= 0xff
    else:
        b[bs + 5] ^= 0xff
    return bytes(b)


def job(j):
    levels, target, nsec, decoy, partial, flavour, seed = j[:7]
    silent = j[7] if len(j) > 7 else False
    hashsize = j[8] if len(j) > 8 else 16
    moved = j[9] if len(j) > 9 else False      # the original is removed before the sync: the look-alike poses as a MOVE
    cfg = Config(levels=levels, ndisks=2, hashsize=hashsize)
    v = []
    where = "%s nsec=%d decoy=%s partial=%s silent-error-in-stripe=%s hashsize=%d%s %s" % (target, nsec, decoy, partial, silent, hashsize, " original-removed" if moved else "", " ".join(flavour))
    with labmod.Lab(cfg, seed=seed) as L:
        td, tp = TARGETS[target]
        od = "d2" if td == "d1" else "d1"
        mt = build(L, nsec, partial, od if silent else None)
        orig = L.read("d1", "dir/a")
        dbytes = decoy_bytes(orig, decoy)
        L.write(td, tp, dbytes, mt)
        if moved:
            L.rm("d1", "dir/a")
        if silent:
            # every block of the long synced file on the OTHER disk is silently damaged (size and time-stamp kept): each stripe
            # the look-alike lands on then also holds one silent error, which sync may repair on the fly - without thereby
            # accepting the look-alike
            from vp import faults
            c0 = L.content()
            fbig = next(x for x in c0.disks[od.encode()].files if x.sub.decode() == "big")
            for st_, pos_, h_ in fbig.blocks:
                faults.damage_data_block(L, c0, od, pos_, "flip0")
        par_before = {l: L.parity_stream(l) for l in range(levels)}
        res = L.run(flavour[0], *flavour[1:])
        c = L.content()
        copies = len(res.tags.get("scan", "copy"))
        # (a) C06 with hash sanity: nothing recorded synced without having been hashed from its own bytes
        for o in X.c06(L, where):
            o["kind"] = "c06-" + o["kind"]
            v.append(o)
        bs = c.block_size
        f = next((x for x in c.disks[td.encode()].files if x.sub.decode() == tp), None)
        data_changed = res.tags.get("error") and any(b"Unexpected data change" in t[-1] for t in res.tags.get("error"))
        if f is None:
            v.append(dict(kind="look-alike-not-recorded", where=where))
        else:
            for i, (st, pos, h) in enumerate(f.blocks):
                blk = dbytes[i * bs:(i + 1) * bs]
                if st == C.BLK and P.block_hash(c, pos, blk) != h:
                    v.append(dict(kind="block-recorded-synced-with-foreign-hash", where=where, block=i))
        if "-N" in flavour:
            if res.rc != 0 and not silent:      # with silent errors planted the sync legitimately ends with errors
                v.append(dict(kind="nocopy-sync-failed", where=where, out=res.text()[-300:]))
            if copies:
                v.append(dict(kind="copy-detected-despite-force-nocopy", where=where))
        if res.rc != 0 and "-h" in flavour and data_changed:
            if any(L.parity_stream(l) != par_before[l] for l in range(levels)):
                v.append(dict(kind="prehash-mismatch-but-parity-overwritten", where=where))
            # the user runs the same command again (the state saved by the stopped sync is what it starts from now)
            for again in (2, 3):
                res_n = L.run(flavour[0], *flavour[1:])
                if any(L.parity_stream(l) != par_before[l] for l in range(levels)):
                    v.append(dict(kind="prehash-mismatch-but-parity-overwritten", where=where + " (run %d of the same command)" % again, rc=res_n.rc))
                    break
                if res_n.rc == 0:
                    v.append(dict(kind="prehash-mismatch-forgotten-by-rerun", where=where + " (run %d)" % again))
                    break
        if moved:
            return dict(viols=v, outcome=(res.rc, copies, bool(data_changed)))
        if res.rc == 0 and decoy != "none" and copies and "-N" not in flavour:
            # a decoy taken for a copy must have produced an error
            v.append(dict(kind="decoy-copy-accepted-silently", where=where))
        if partial and copies and f is not None:
            # the source was not fully hashed: inheriting its hashes is not allowed
            src = next(x for x in c.disks[b"d1"].files if x.sub == b"dir/a")
            v.append(dict(kind="copy-from-partially-hashed-source", where=where))
        outcome = (res.rc, copies, bool(data_changed))
        # (b) loss of the original, the look-alike stays around; also an import directory with both
        S = L.save()
        imp = L.p("import")
        for lose_parity in (False, True):
            for fix_opts in ((), ("-i", imp)):
                L.restore(S)
                os.makedirs(os.path.join(imp, "x"), exist_ok=True)
                for name, b in (("x/a", decoy_bytes(orig, "first")), ("truecopy", orig), ("x/middle", decoy_bytes(orig, "middle"))):
                    with open(os.path.join(imp, name), "wb") as fh:
                        fh.write(b)
                    os.utime(os.path.join(imp, name), ns=(mt, mt))
                c2 = L.content()
                L.rm("d1", "dir/a")
                if lose_parity:
                    for l in range(levels):
                        F.lose_parity(L, l)
                exempt = C05.exempt_files(c2, L.snap())
                before = L.snap()
                r = C05.run_fix(L, fix_opts)
                w2 = where + " | lost original%s, fix %s" % (" + all parity" if lose_parity else "", " ".join(fix_opts))
                for o in C05.fix_oracle(L, c2, r, before, (), w2, exempt):
                    if o["kind"] in ("unknown-path-written",):
                        continue
                    o["kind"] = "fix-" + o["kind"]
                    v.append(o)
                # never the decoy's bytes under the original's identity
                e = L.snap().get("d1/dir/a")
                if e is not None and e[0] == "f" and e[3] != orig and decoy != "none" and e[3] == dbytes:
                    v.append(dict(kind="decoy-bytes-under-original-identity", where=w2))
    return dict(viols=v, outcome=outcome)


def stale_import_job(j):
    """a new file B took the positions of a deleted file A and is recorded but not yet synced (its blocks carry A's hashes as the
    description of what the parity held BEFORE); the parity already holds B.  B is lost.  A's old bytes are still around - in an
    import directory, or as a look-alike inside the array with B's size and time-stamp.  fix must give back B's bytes (from parity)
    or report it unrecoverable; A's bytes under B's name are unverified data accepted through the import shortcut"""
    levels, source, seed = j
    cfg = Config(levels=levels, ndisks=2)
    v = []
    where = "stale data of the deleted predecessor reachable through %s, levels=%d" % (source, levels)
    with labmod.Lab(cfg, seed=seed) as L:
        for d in cfg.disknames:
            X.apply_op(L, ("write", d, "anchor", 700, 0))
        X.apply_op(L, ("write", "d1", "pred", 2500, 0))
        r = L.run("sync")
        assert r.rc == 0, r.text()
        a_bytes = L.read("d1", "pred")
        L.rm("d1", "pred")
        mtb = X.file_mtime_ns("succ", 2500, 0)
        b_bytes = X.file_bytes(L, "succ", 2500, 0)
        L.write("d1", "succ", b_bytes, mtb)
        r = L.run("sync", "--test-kill-after-sync")
        c = L.content()
        fb = next((x for x in c.disks[b"d1"].files if x.sub == b"succ"), None)
        if fb is None or all(st == C.BLK for st, _, _ in fb.blocks):
            return dict(viols=[dict(kind="harness-state-not-reached", where=where)], outcome=("stale", "unreached", False))
        imp = L.p("import")
        os.makedirs(imp, exist_ok=True)
        opts = ()
        if source == "import-dir":
            with open(os.path.join(imp, "old-copy"), "wb") as fh:
                fh.write(a_bytes)
            os.utime(os.path.join(imp, "old-copy"), ns=(mtb, mtb))
            opts = ("-i", imp)
        else:
            L.write("d2", "lookalike/succ", a_bytes, mtb)      # same name, size and time-stamp as B, bytes of A
        L.rm("d1", "succ")
        res = L.run("fix", *opts)
        e = L.snap().get("d1/succ")
        unrec = bool(res.tags.get("status", "unrecoverable")) or os.path.lexists(L.p("d1", "succ.unrecoverable"))
        if e is not None and e[0] == "f":
            if e[3] == a_bytes:
                v.append(dict(kind="stale-bytes-of-the-deleted-predecessor-accepted", where=where, rc=res.rc,
                              imported=len(res.tags.get("hash_import")) if hasattr(res.tags, "get") else None))
            elif e[3] != b_bytes and not unrec:
                v.append(dict(kind="wrong-bytes-not-reported", where=where, rc=res.rc))
        elif not unrec and res.rc == 0:
            v.append(dict(kind="missing-not-reported", where=where))
    return dict(viols=v, outcome=("stale", res.rc, unrec))


def import_toctou_job(j):
    """import by content (--test-import-content DIR): the directory is hashed when it is scanned, the bytes are fetched later.  Here the
    file offering the wanted block is repaired by the very fix that wants to import from it, in an EARLIER stripe: at fetch time it
    no longer holds what the scan saw.  The fetched bytes must be re-verified; the lost file gets its own bytes or nothing"""
    levels, seed = j
    cfg = Config(levels=levels, ndisks=2)
    v = []
    where = "import by content from a file the same fix repairs first, levels=%d" % levels
    with labmod.Lab(cfg, seed=seed) as L:
        X.apply_op(L, ("write", "d1", "pad", 1024, 0))     # stripe 0 on d1
        X.apply_op(L, ("write", "d1", "x", 1024, 0))       # stripe 1 on d1
        X.apply_op(L, ("write", "d2", "y", 1024, 0))       # stripe 0 on d2
        r = L.run("sync")
        assert r.rc == 0, r.text()
        xb, yb = L.read("d1", "x"), L.read("d2", "y")
        st = os.lstat(L.p("d2", "y"))
        L.rm("d1", "x")
        with open(L.p("d2", "y"), "r+b") as fh:            # y silently holds x's bytes now (size and stamp kept)
            fh.write(xb)
        os.utime(L.p("d2", "y"), ns=(st.st_mtime_ns, st.st_mtime_ns))
        res = L.run("fix", "--test-import-content", L.p("d2"))
        e = L.snap().get("d1/x")
        rec_x = any(len(t) >= 4 and t[3] == b"x" for t in res.tags.get("status", "recovered"))
        # (the tool stops with a failing status when it notices the change; the file it had begun to re-create stays behind
        # unfinished and unreported - the kind of leftover recorded as C05/fix-stops-on-self-renamed-search-source; not judged here)
        if e is not None and e[0] == "f" and e[3] != xb and (res.rc == 0 or rec_x):
            v.append(dict(kind="imported-bytes-not-reverified", where=where, rc=res.rc, holds="bytes of y" if e[3] == yb else "other bytes",
                          reported_recovered=rec_x))
    return dict(viols=v, outcome=("import-toctou", res.rc, False))


def samepath_job(j):
    """the 'unchanged file' shortcut (same path or same inode, same size, same time-stamp): a file rewritten since - in place (same
    inode) or replaced by rename (new inode) - with the same size and the same SECONDS but another sub-second part is not the recorded
    file: the sync has to read it"""
    levels, rec_nsec, new_nsec, how, uuid, seed = j
    cfg = Config(levels=levels, ndisks=2, uuid=uuid)
    v = []
    where = "same path, size and seconds; sub-second %d -> %d; %s; inodes %s" % (rec_nsec, new_nsec, how, "trusted" if uuid else "ignored")
    with labmod.Lab(cfg, seed=seed) as L:
        for d in cfg.disknames:
            X.apply_op(L, ("write", d, "anchor", 700, 0))
        sec = labmod.T0 + 9000
        X.apply_op(L, ("writeat", "d1", "dir/a", SIZE, 0, sec * 10**9 + rec_nsec))
        X.apply_op(L, ("writeat", "d2", "dir/b", SIZE, 0, sec * 10**9 + rec_nsec))
        r = L.run("sync")
        assert r.rc == 0, r.text()
        for d, n in (("d1", "dir/a"), ("d2", "dir/b")):
            newb = X.file_bytes(L, n, SIZE, 1)
            if how == "rename":
                L.rm(d, n)
                L.write(d, n, newb, sec * 10**9 + new_nsec)
            else:
                with open(L.p(d, n), "r+b") as fh:
                    fh.write(newb)
                os.utime(L.p(d, n), ns=(sec * 10**9 + new_nsec,) * 2)
        res = L.run("sync")
        c = L.content()
        bs = c.block_size
        for d in c.disks.values():
            for f in d.files:
                data = L.read(d.name.decode(), f.sub.decode())
                for i, (st, pos, h) in enumerate(f.blocks):
                    if st == C.BLK and P.block_hash(c, pos, data[i * bs:(i + 1) * bs]) != h:
                        v.append(dict(kind="block-recorded-synced-with-foreign-hash", where=where, file=f.sub.decode(), block=i))
                        break
        for o in X.c06(L, where):
            o["kind"] = "c06-" + o["kind"]
            v.append(o)
        chk = L.run("check", "-a")
        if res.rc == 0 and chk.rc != 0:
            v.append(dict(kind="check-fails-after-successful-sync", where=where, out=chk.text()[-300:]))
    return dict(viols=v, outcome=("samepath", res.rc, False))


def uuid_job(j):
    """the move shortcut (same inode, size, time-stamp) after the disks' UUID changed: inode numbers of the old file system mean nothing,
    a file that happens to own the number another look-alike file had must be read, not trusted"""
    levels, first_uuid, seed = j
    cfg = Config(levels=levels, ndisks=2)
    v = []
    where = "twins exchange inodes, UUID %s -> fake" % ("none" if not first_uuid else "fake")
    with labmod.Lab(cfg, seed=seed) as L:
        for d in cfg.disknames:
            X.apply_op(L, ("write", d, "anchor", 700, 0))
        mt = (labmod.T0 + 7000) * 10**9 + 123
        X.apply_op(L, ("writeat", "d1", "tx", 1500, 0, mt))
        X.apply_op(L, ("writeat", "d1", "ty", 1500, 1, mt))
        L.extra_opts = []
        r = L.run("sync")
        assert r.rc == 0, r.text()
        X.apply_op(L, ("swapinodes", "d1", "tx", "ty"))
        L.extra_opts = ["--test-fake-uuid"]
        res = L.run("sync")
        c = L.content()
        moves = len(res.tags.get("scan", "move"))
        if moves:
            v.append(dict(kind="inode-move-trusted-across-a-uuid-change", where=where, moves=moves))
        bs = c.block_size
        for f in c.disks[b"d1"].files:
            data = L.read("d1", f.sub.decode())
            for i, (st, pos, h) in enumerate(f.blocks):
                if st == C.BLK and P.block_hash(c, pos, data[i * bs:(i + 1) * bs]) != h:
                    v.append(dict(kind="block-recorded-synced-with-foreign-hash", where=where, file=f.sub.decode(), block=i))
                    break
        for o in X.c06(L, where):
            o["kind"] = "c06-" + o["kind"]
            v.append(o)
        chk = L.run("check", "-a")
        if chk.rc != 0:
            v.append(dict(kind="check-fails-after-successful-sync", where=where, out=chk.text()[-300:]))
    return dict(viols=v, outcome=(res.rc, moves, False))


def run(ctx):
    tier = ctx.tier
    levels = [1] if tier == "quick" else [1, 2]
    targets = list(TARGETS) if tier == "thorough" else ["other-disk-same-path", "other-disk-other-dir", "same-disk-other-dir"]
    decoys = DECOYS if tier == "thorough" else ["none", "first", "last"]
    ctx.set("rule", "all combinations of look-alike location %r x sub-second stamp {0,500} x decoy %r x source {fully, partially} "
                    "hashed x %r x levels %r; each followed by loss of the original (alone / with all parity) and fix / fix -i "
                    "with decoys in the array and in the import directory. non-trivial = copy detection fired or a decoy was present"
                    % (targets, decoys, FLAVOURS, levels))
    jobs = [(l, t, ns, d, p, f, ctx.seed) for l in levels for t in targets for ns in (0, 500) for d in decoys
            for p in (False, True) for f in FLAVOURS]
    # the same matrix with a silent error in every stripe the look-alike occupies, on 2 parity levels (on-the-fly repair possible)
    jobs += [(2, t, ns, d, False, f, ctx.seed, True) for t in targets for ns in (0, 500) for d in decoys for f in FLAVOURS]
    # reduced hash size (the special hash markers are then indistinguishable from real hashes)
    jobs += [(l, t, ns, d, p, f, ctx.seed, False, 8) for l in levels[:1] for t in targets for ns in (0, 500) for d in decoys
             for p in ((False,) if tier == "quick" else (False, True)) for f in (FLAVOURS[:1] if tier == "quick" else FLAVOURS)]
    # the look-alike poses as a move (original removed before the sync)
    jobs += [(l, t, ns, d, False, f, ctx.seed, False, 16, True) for l in levels[:1] for t in targets for ns in (0, 500) for d in decoys
             for f in FLAVOURS[:2]]
    evals = 0
    done = 0
    for j, r in par.pmap(job, jobs, deadline=ctx.deadline):
        done += 1
        evals += 5
        ctx.outcome(r["outcome"])
        if r["outcome"][1] or j[3] != "none":
            ctx.nontrivial(j[:6] + j[7:])
        for v in r["viols"]:
            ctx.violation("C19/%s" % v["kind"], "%s: %s" % (v["kind"], v.get("where")),
                          dict(levels=j[0], target=j[1], nsec=j[2], decoy=j[3], partial=j[4], flavour=j[5], silent=(j[7] if len(j) > 7 else False), hashsize=(j[8] if len(j) > 8 else 16), moved=(j[9] if len(j) > 9 else False), violation=v))
        if done in (5, 60):
            ctx.sample(dict(levels=j[0], target=j[1], nsec=j[2], decoy=j[3], partial_source=j[4], flavour=j[5], outcome=r["outcome"]))
    if done < len(jobs):
        ctx.cap("deadline (%d of %d scenarios)" % (done, len(jobs)))
    for lv in sorted(set(levels) | {2}):
        for source in ("import-dir", "lookalike-in-array"):
            r = stale_import_job((lv, source, ctx.seed))
            evals += 3
            ctx.nontrivial(("stale-import", lv, source))
            ctx.outcome(r["outcome"])
            for v in r["viols"]:
                if v["kind"].startswith("harness"):
                    raise RuntimeError("harness problem %r" % v)
                ctx.violation("C19/stale-import/%s" % v["kind"], "%s: %s" % (v["kind"], v.get("where")),
                              dict(stale_import=True, levels=lv, source=source, violation=v))
    for lv in sorted(set(levels) | {2}):
        r = import_toctou_job((lv, ctx.seed))
        evals += 2
        ctx.nontrivial(("import-toctou", lv))
        ctx.outcome(r["outcome"])
        for v in r["viols"]:
            ctx.violation("C19/import-content/%s" % v["kind"], "%s: %s" % (v["kind"], v.get("where")), dict(import_toctou=True, levels=lv, violation=v))
    for lv in levels:
        r = uuid_job((lv, False, ctx.seed))
        evals += 3
        ctx.nontrivial(("uuid-change", lv))
        ctx.outcome(r["outcome"])
        for v in r["viols"]:
            ctx.violation("C19/uuid-change/%s" % v["kind"], "%s: %s" % (v["kind"], v.get("where")), dict(uuid_change=True, levels=lv, violation=v))
    sp = [(lv, a, b, how, u, ctx.seed) for lv in levels[:1] for a, b in ((0, 250000000), (500000000, 0), (500000000, 250000000), (0, 1))
          for how in ("in-place", "rename") for u in (False, True)]
    for j, r in par.pmap(samepath_job, sp, deadline=ctx.deadline):
        evals += 3
        ctx.nontrivial(("samepath",) + j[:5])
        ctx.outcome(r["outcome"])
        for v in r["viols"]:
            ctx.violation("C19/same-path/%s" % v["kind"], "%s: %s" % (v["kind"], v.get("where")), dict(samepath=list(j[:5]), violation=v))
    ctx.set("evaluations", evals)
    ctx.set("scenarios", done)
    ctx.set("states", done)
    ctx.set("transitions", evals)
    ctx.set("traces_validated_against_impl", evals)
    ctx.assumptions += ["inode-keeping moves on the same disk are trusted by design (identity established); an in-place change with preserved stamp is C04's subject"]


def replay(r):
    if r.get("import_toctou"):
        out = import_toctou_job((r["levels"], 0))
        for v in out["viols"]:
            print("  ", v)
        return not out["viols"]
    if r.get("stale_import"):
        out = stale_import_job((r["levels"], r["source"], 0))
        for v in out["viols"]:
            print("  ", v)
        return not out["viols"]
    if r.get("samepath"):
        out = samepath_job(tuple(r["samepath"]) + (0,))
        for v in out["viols"]:
            print("  ", v)
        return not out["viols"]
    if r.get("uuid_change"):
        out = uuid_job((r["levels"], False, 0))
        for v in out["viols"]:
            print("  ", v)
        return not out["viols"]
    out = job((r["levels"], r["target"], r["nsec"], r["decoy"], r["partial"], tuple(r["flavour"]), 0, r.get("silent", False), r.get("hashsize", 16), r.get("moved", False)))
    for v in out["viols"]:
        print("  ", v)
    return not out["viols"]
