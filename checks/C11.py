"""C11  A successful sync captures every change and converges  (arraymc: all op sequences up to a depth).

Every sequence of file-system operations of length <= d over a 20-operation alphabet (2 disks, colliding names)
is applied to a synced array; then diff / sync / diff / list / check are run by the real CLI and compared with
ground truth taken from the file system and with the independently decoded content file.
"""
import itertools, os, stat
from vp import lab as labmod, explore as X, content as C, par, parity as P
from vp.lab import Config

LEVEL = "model_checking"
BUDGET = {"quick": 240, "thorough": 2400}


def base_ops():
    return [("write", "d1", "anchor", 700, 0), ("write", "d2", "anchor", 700, 0),
            ("write", "d1", "a", 2500, 0), ("write", "d1", "b", 1025, 0), ("write", "d2", "c", 1000, 0),
            ("write", "d1", "dd/f", 600, 0), ("symlink", "d1", "sl", "a"), ("hardlink", "d1", "hl", "a"),
            ("mkdir", "d2", "emptyd"), ("write", "d2", "t0", 300, 0, 0),
            # d2 is the longest disk: what arrives on it lands beyond every stripe that existed before (e.g. beyond the stripes a pending
            # hash migration has tagged)
            ("write", "d2", "zbig", 9000, 0),
            # twins: same size and the same complete time-stamp, different bytes
            ("writeat", "d1", "tx", 1500, 0, (labmod.T0 + 7000) * 10**9 + 123), ("writeat", "d1", "ty", 1500, 1, (labmod.T0 + 7000) * 10**9 + 123),
            ("cmd", "sync")]


# the alphabet: name -> list of primitive ops
ALPHABET = {
    "create": [("write", "d1", "n", 1500, 0)],
    "overwrite-newlen": [("write", "d1", "a", 3000, 1)],
    "rewrite-samelen": [("write", "d1", "a", 2500, 1)],
    "append": [("append", "d1", "a", 100)],
    "truncate": [("trunc", "d1", "a", 1000)],
    "delete": [("rm", "d1", "a")],
    "rename": [("mv", "d1", "a", "d1", "r")],
    "move-dir": [("mv", "d1", "a", "d1", "sub/a")],
    "move-disk": [("mv", "d1", "a", "d2", "a")],
    "copy": [("cp", "d1", "a", "d2", "a")],
    "file-to-dir": [("rm", "d1", "b"), ("write", "d1", "b/x", 800, 0)],
    "dir-to-file": [("rm", "d1", "dd"), ("write", "d1", "dd", 900, 0)],
    "file-to-symlink": [("rm", "d1", "b"), ("symlink", "d1", "b", "a")],
    "symlink-to-file": [("rm", "d1", "sl"), ("write", "d1", "sl", 400, 0)],
    "retarget-symlink": [("symlink", "d1", "sl", "b")],
    "symlink-to-hardlink": [("rm", "d1", "sl"), ("hardlink", "d1", "sl", "a")],
    "hardlink-to-symlink": [("rm", "d1", "hl"), ("symlink", "d1", "hl", "b")],
    "retarget-hardlink": [("rm", "d1", "hl"), ("hardlink", "d1", "hl", "b")],
    "add-hardlink": [("hardlink", "d1", "hl2", "b")],
    "remove-hardlink": [("rm", "d1", "hl")],
    "mtime-only": [("touch", "d1", "b", 1)],
    "swap": [("mv", "d1", "a", "d1", ".tmpswap"), ("mv", "d1", "b", "d1", "a"), ("mv", "d1", ".tmpswap", "d1", "b")],
    "delete-create": [("rm", "d2", "c"), ("write", "d2", "c", 1000, 3)],
    "nsec-only-rewrite": [("writeat", "d2", "t0", 300, 5, X.file_mtime_ns("t0", 300, 0, 0) + 777)],
    "sec-only-rewrite": [("writeat", "d1", "b", 1025, 6, X.file_mtime_ns("b", 1025, 0) + 10**9)],
    "mkdir-empty": [("mkdir", "d1", "newempty")],
    # the third disk starts empty: first things that ever appear on a disk
    "symlink-on-empty-disk": [("symlink", "d3", "lnk", "../d1/a")],
    "emptydir-on-empty-disk": [("mkdir", "d3", "onlydir")],
    "file-on-empty-disk": [("write", "d3", "first", 100, 0)],
    "zerofile-on-empty-disk": [("write", "d3", "z", 0, 0)],
    "rm-emptydir": [("rmdir", "d2", "emptyd")],
    # size changes in place (same inode) with the time-stamp put back: only the size tells
    "grow-same-stamp": [("resizekeep", "d1", "a", 700)],
    "shrink-same-stamp": [("resizekeep", "d1", "a", -1200)],
    # the twins exchange their inode numbers (names, bytes and stamps unchanged)
    "swap-inodes-of-twins": [("swapinodes", "d1", "tx", "ty")],
    # a file put back from a copy: same name, size and time-stamp, new inode; its hard link made again (scanned after it)
    "restore-same-stamp": [("cp", "d1", "a", "d1", ".restore-tmp"), ("rm", "d1", "a"), ("rm", "d1", "hl"),
                           ("mv", "d1", ".restore-tmp", "d1", "a"), ("hardlink", "d1", "hl", "a")],
}
QUICK_NAMES = list(ALPHABET)
# syncs that stop before the end ("a previous sync was incomplete"); used after one operation, never inside the general sequences
INCOMPLETE = {
    "!sync-B1": [("cmd", "sync", "-B", "1")],
    "!sync-S1-B1": [("cmd", "sync", "-S", "1", "-B", "1")],
    "!sync-killed": [("cmd", "sync", "--test-kill-after-sync")],
}
ALPHABET.update(INCOMPLETE)


def ground_truth(L):
    """files {(disk, path): (size, mtime_ns)}, links {(disk,path): (kind, target)}, emptydirs {(disk,path)}
    hard links: in alphabetical scan order the first path of an inode is the file, later ones are links to it"""
    files, links, dirs = {}, {}, set()
    for d in L.cfg.disknames:
        seen = {}
        base = L.p(d)

        def walk(rel):
            full = os.path.join(base, rel) if rel else base
            names = sorted(os.listdir(full))
            if rel and not names:
                dirs.add((d, rel))
            for n in names:
                r = os.path.join(rel, n) if rel else n
                st = os.lstat(os.path.join(base, r))
                if stat.S_ISLNK(st.st_mode):
                    links[(d, r)] = ("symlink", os.readlink(os.path.join(base, r)))
                elif stat.S_ISDIR(st.st_mode):
                    walk(r)
                elif stat.S_ISREG(st.st_mode):
                    if st.st_nlink > 1 and st.st_ino in seen:
                        links[(d, r)] = ("hardlink", seen[st.st_ino])
                    else:
                        seen[st.st_ino] = r
                        files[(d, r)] = (st.st_size, st.st_mtime_ns)
        walk("")
    return files, links, dirs


def recorded(c):
    files, links, dirs = {}, {}, set()
    for d in c.disks.values():
        dn = d.name.decode()
        for f in d.files:
            ns = f.mtime_nsec if f.mtime_nsec is not None else 0
            files[(dn, f.sub.decode(errors="surrogateescape"))] = (f.size, f.mtime_sec * 10**9 + ns)
        for k, sub, to in d.links:
            links[(dn, sub.decode(errors="surrogateescape"))] = ("symlink" if k == "s" else "hardlink", to.decode(errors="surrogateescape"))
        for sub in d.dirs:
            dirs.add((dn, sub.decode(errors="surrogateescape")))
    return files, links, dirs


def norm(files, links):
    """make the choice of which path of a hard-link group is 'the file' irrelevant"""
    groups = {}
    for (d, p), (kind, to) in links.items():
        if kind == "hardlink":
            groups.setdefault((d, to), set()).add(p)
    f2 = dict(files)
    l2 = {k: v for k, v in links.items() if v[0] != "hardlink"}
    for (d, to), ps in groups.items():
        members = sorted(ps | {to})
        meta = files.get((d, to))
        f2.pop((d, to), None)
        f2[(d, "hardlink-group:" + "|".join(members))] = meta
    return f2, l2


def has_unsynced(c):
    for d in c.disks.values():
        if d.deleted:
            return True
        for f in d.files:
            if any(st != C.BLK for st, _, _ in f.blocks):
                return True
    return False


def post_sync_oracle(L, where):
    """after a sync that exited 0"""
    v = []
    try:
        c = L.content()
    except C.ContentError as e:
        return [dict(kind="content-undecodable-after-successful-sync", where=where, err=str(e))]
    gt_files, gt_links, gt_dirs = ground_truth(L)
    r = L.run("diff")
    s = r.tags.summary()
    counters = {k: s.get(k) for k in ("equal", "added", "removed", "updated", "moved", "copied", "restored")}
    if r.rc != 0 or any(counters[k] not in (None, "0") for k in counters if k != "equal"):
        v.append(dict(kind="diff-after-sync", where=where, rc=r.rc, counters=counters))
    rec_files, rec_links, rec_dirs = recorded(c)
    gt_files, gt_links = norm(gt_files, gt_links)
    rec_files, rec_links = norm(rec_files, rec_links)
    if rec_files != gt_files:
        only_rec = sorted(set(rec_files.items()) - set(gt_files.items()))[:4]
        only_gt = sorted(set(gt_files.items()) - set(rec_files.items()))[:4]
        v.append(dict(kind="recorded-files-differ", where=where, only_recorded=only_rec, only_on_disk=only_gt))
    if rec_links != gt_links:
        v.append(dict(kind="recorded-links-differ", where=where, recorded=sorted(rec_links.items()), disk=sorted(gt_links.items())))
    if rec_dirs != gt_dirs:
        v.append(dict(kind="recorded-emptydirs-differ", where=where, recorded=sorted(rec_dirs), disk=sorted(gt_dirs)))
    # list -l must agree with the same ground truth
    r = L.run("list", bracket=False)
    lf, ll = {}, {}
    for t in r.tags.get("file"):
        lf[(t[1].decode(), t[2].decode(errors="surrogateescape"))] = (int(t[3]), int(t[4]) * 10**9 + int(t[5]))
    for t in r.tags.lines:
        if t[0] in (b"link_symlink", b"link_hardlink"):
            ll[(t[1].decode(), t[2].decode(errors="surrogateescape"))] = (t[0].decode()[5:], t[3].decode(errors="surrogateescape"))
    lf, ll = norm(lf, ll)
    if lf != gt_files:
        v.append(dict(kind="list-files-differ", where=where, only_list=sorted(set(lf.items()) - set(gt_files.items()))[:4],
                      only_disk=sorted(set(gt_files.items()) - set(lf.items()))[:4]))
    if ll != gt_links:
        v.append(dict(kind="list-links-differ", where=where, list=sorted(ll.items()), disk=sorted(gt_links.items())))
    # every block synced and hashed from the CURRENT bytes (=> every changed file was read again)
    bs = c.block_size
    for d in c.disks.values():
        dn = d.name.decode()
        for f in d.files:
            sub = f.sub.decode(errors="surrogateescape")
            try:
                data = L.read(dn, sub)
            except OSError:
                continue
            for i, (st, pos, h) in enumerate(f.blocks):
                if st != C.BLK:
                    v.append(dict(kind="block-not-synced-after-sync", where=where, file="%s/%s" % (dn, sub), state=st))
                    break
                if P.block_hash(c, pos, data[i * bs:(i + 1) * bs]) != h:
                    v.append(dict(kind="hash-not-of-current-bytes", where=where, file="%s/%s" % (dn, sub), block=i))
                    break
    r = L.run("check", bracket=False)
    if r.rc != 0:
        v.append(dict(kind="check-after-sync-fails", where=where, rc=r.rc, out=r.text()[-300:]))
    for o in X.c06(L, where):
        o["kind"] = "c06-" + o["kind"]
        v.append(o)
    return v


def pre_sync_oracle(L, where, role_ambiguous=False, inodes_void=False):
    """diff exits 2 exactly when a file or link was added, removed or changed or the last sync was incomplete"""
    v = []
    try:
        c = L.content()
    except FileNotFoundError:
        return v
    except C.ContentError as e:
        return [dict(kind="content-undecodable", where=where, err=str(e))]
    gt_files, gt_links, gt_dirs = ground_truth(L)
    raw_links = dict(gt_links)
    rec_files, rec_links, rec_dirs = recorded(c)
    gt_files, gt_links = norm(gt_files, gt_links)
    rec_files, rec_links = norm(rec_files, rec_links)
    # files recorded with an invalid nsec compare on seconds
    differ = rec_files != gt_files or rec_links != gt_links or has_unsynced(c)
    if ("--test-fake-uuid" in L.extra_opts or L.cfg.uuid) and not inodes_void:
        # persistent inodes (first two disks): a recorded file now living under another inode number was put back ("restored")
        for dn in L.cfg.disknames[:2]:
            d = c.disks.get(dn.encode())
            for f in (d.files if d else ()):
                try:
                    if os.lstat(L.p(dn, f.sub.decode(errors="surrogateescape"))).st_ino != f.inode:
                        differ = True
                except OSError:
                    pass
    r = L.run("diff")
    want = 2 if differ else 0
    if role_ambiguous and not differ and r.rc == 2 and any(k[0] == "hardlink" for k in raw_links.values()):
        # scan orders other than alphabetical decide by directory / inode order which path of a hard-link group is "the file":
        # renames reshuffle that order and diff then reports the role swap; nothing the statement speaks about changed
        want = 2
    if r.rc != want:
        v.append(dict(kind="diff-exit", where=where, want=want, got=r.rc, summary=r.tags.summary(),
                      files_differ=rec_files != gt_files, links_differ=rec_links != gt_links, unsynced=has_unsynced(c)))
    if r.changed() - {os.path.relpath(p, L.root) + ".lock" for p in L.content_paths()}:
        v.append(dict(kind="diff-modified-something", where=where, paths=sorted(r.changed())))
    return v


def job(j):
    cfg, saved, seqs, opts, seed, mode = j
    L = X.materialize(cfg, saved, seed)
    L.extra_opts = list(opts)
    if saved is None:
        # persistent-inode mode: inode numbers are observable, so the base state is rebuilt, never restored
        if mode == "uuid-appears":
            L.extra_opts = []
        for op in base_ops():
            X.apply_op(L, op)
        L.extra_opts = list(opts)
    viols = []
    syncs = []
    for si, seq in enumerate(seqs):
        for name in seq:
            for op in ALPHABET[name]:
                X.apply_op(L, op)
        where = "%s|%s" % ("/".join(" ".join(s) for s in seqs[:si + 1]), mode)
        viols += pre_sync_oracle(L, "pre:" + where, role_ambiguous=mode in REBUILD, inodes_void=(mode == "uuid-appears" and si == 0))
        r = L.run("sync", det=(mode != "threads"))
        syncs.append(r.rc)
        if r.rc == 0:
            viols += post_sync_oracle(L, "post:" + where)
        else:
            viols.append(dict(kind="sync-failed", where=where, rc=r.rc, out=r.text()[-400:]))
    return dict(viols=viols, syncs=syncs)


MODES = {
    "alpha": [],
    "uuid-inode": ["--test-fake-uuid"],
    # the base is synced while the disks report no UUID; from then on they report one (a UUID change: recorded inodes are void)
    "uuid-appears": ["--test-fake-uuid"],
    "order-inode": [],
    "order-dir": [],
    "order-physical": [],
    "threads": [],
    "rehash-pending": [],
}


# modes in which inode numbers / directory order are observable: the base state is rebuilt, never restored
REBUILD = ("uuid-inode", "uuid-appears", "order-inode", "order-dir", "order-physical")


def run(ctx):
    tier = ctx.tier
    names = QUICK_NAMES
    d = 2 if tier == "quick" else 3
    ctx.set("rule", "every sequence of <=%d operations over the %d-operation alphabet %r applied to a synced array of 2 populated disks and 1 empty disk, "
                    "then diff/sync/diff/list/check; scan modes: alphabetical (all sequences), fake-UUID persistent-inode "
                    "mode, inode/dir/physical order and parallel scan (all sequences of length<=%d); thorough adds a second "
                    "round (sequence, sync, one more operation, sync). non-trivial = diff reported a difference before the sync"
                    % (d, len(names), names, 1 if tier == "quick" else 2))
    cfg = Config(levels=1, ndisks=3)
    evals = 0
    states = set()
    for mode, opts in MODES.items():
        if ctx.out_of_time():
            ctx.cap("deadline before mode " + mode)
            break
        # the base state is built under the same mode (a uuid that appears later is a different situation)
        with labmod.Lab(cfg, seed=ctx.seed) as L0:
            L0.extra_opts = list(opts)
            if mode.startswith("order-"):
                # replace the alphabetical order switch
                pass
            for op in base_ops() + ([("cmd", "rehash")] if mode == "rehash-pending" else []):
                r = X.apply_op(L0, op)
                if r is not None and r.rc != 0:
                    raise RuntimeError("base sync failed\n" + r.text())
            saved = L0.save()
        depth = d if mode == "alpha" else (2 if mode == "rehash-pending" else (1 if tier == "quick" else 2))
        all_names = names
        if mode == "uuid-inode":
            # with trusted persistent inodes "same inode, size and time-stamp, other bytes" is an in-place rewrite with a preserved
            # stamp, which no scan can see (C04's subject): the inode exchange is only used where inode numbers are void or ignored
            names = [n for n in all_names if n != "swap-inodes-of-twins"]
        seqs = []
        for k in range(0, depth + 1):
            for s in itertools.product(names, repeat=k):
                seqs.append((s,))
        if tier == "thorough" and mode == "alpha":
            for s in itertools.product(names, repeat=2):
                for t in names:
                    seqs.append((s, (t,)))
        elif mode == "alpha":
            for s in names:
                for t in names:
                    seqs.append(((s,), (t,)))
        if mode in ("alpha", "rehash-pending"):
            # one operation, then a sync that does not complete, then (no further change) diff / sync / diff ...
            for s in names:
                for inc in INCOMPLETE:
                    seqs.append(((s, inc),))
        names = all_names
        jobs = [(cfg, None if mode in REBUILD else saved, s, order_opts(mode, opts), ctx.seed, mode) for s in seqs]
        done = 0
        for j, r in par.pmap(job, jobs, deadline=ctx.deadline, chunksize=2):
            done += 1
            evals += 1
            ctx.outcome((mode, tuple(r["syncs"])))
            if any(len(s) for s in j[2]):
                ctx.nontrivial((mode, j[2]))
            for v in r["viols"]:
                ctx.violation("C11/%s/%s" % (mode, v["kind"]), "%s after %s" % (v["kind"], v["where"]),
                              dict(cfg=cfg.describe(), mode=mode, seqs=j[2], violation=v))
            if done in (30, 200):
                ctx.sample(dict(mode=mode, sequence=j[2], then=["diff", "sync", "diff", "list", "check"]))
        if done < len(jobs):
            ctx.cap("mode %s: deadline (%d of %d sequences)" % (mode, done, len(jobs)))
        ctx.set("sequences[%s]" % mode, done)
    ctx.set("evaluations", evals)
    ctx.set("states", evals)
    ctx.set("transitions", evals * 5)
    ctx.set("traces_validated_against_impl", evals)
    ctx.assumptions += ["empty directories do not influence diff's verdict and are compared through the content file",
                        "same-size same-mtime rewrites are not changes here (C04's subject)",
                        "hard links: in alphabetical scan order the first path of an inode is the file"]


def order_opts(mode, opts):
    o = list(opts)
    if mode == "order-inode":
        o.append("--test-force-order-inode")
    elif mode == "order-dir":
        o.append("--test-force-order-dir")
    elif mode == "order-physical":
        o.append("--test-force-order-physical")
    return o


def replay(r):
    cfg = Config.from_dict(r["cfg"])
    mode = r["mode"]
    with labmod.Lab(cfg) as L0:
        L0.extra_opts = order_opts(mode, MODES[mode])
        for op in base_ops():
            X.apply_op(L0, op)
        saved = L0.save()
    out = job((cfg, None if mode in REBUILD else saved, tuple(tuple(s) for s in r["seqs"]), order_opts(mode, MODES[mode]), 0, mode))
    for v in out["viols"]:
        print("  ", v)
    return not out["viols"]
