"""C03 - any erasure pattern within the parity count is exactly recoverable.

(a) every square sub-matrix of raid_gfcauchy (6x251) and raid_gfvandermonde (3x251) is regular, and
    the tables are the documented matrices (native/raidmc_minors.h);
(b) every decoder raid_rec{1,2,X}_<variant> declared in raid/internal.h, raid_data() and raid_rec()
    on every failure set of the tier's geometries (native/raidmc_dec.h);
(c) raid_check()/raid_scan() on every (corrupted set, candidate set) pair (native/raidmc_chk.h).
The enumeration is in C; this file only states the bounds and books the evidence.
"""
import time
from math import comb
from checks import C02 as base

LEVEL = "exploration"
BUDGET = {"quick": 60, "thorough": 900}

# (a) leading columns used for k = 1..6
QUICK_COLSK = {"cauchy": [251] * 6, "power": [251] * 3, "power255ref": [255] * 3}   # the complete space costs ~15 s on 16 cores
# (b) decoders: (nds, fullmax, pairs, families) per native run
QUICK_DEC = [("1-8,12,32,33,64,128", 8, 1, "ramp,dense,prng"), ("250,251", 8, 0, "ramp,dense,prng")]
THOROUGH_DEC = [("1-12", 12, 1, "ramp,dense,prng"), ("16,31,32,33,34,63,64,65,127,128,129,200,250,251", 12, 1, "ramp,dense")]
DEC_SIZES = "64,256"
# (c) raid_check / raid_scan
QUICK_CHK = {0: ("1-5", "64"), 1: ("1-6", "64")}
THOROUGH_CHK = {0: ("1-7", "64,256"), 1: ("1-8", "64,256")}
NROWS = {"cauchy": 6, "power": 3, "power255ref": 3}


def _left(ctx):
    return ctx.deadline - time.time()


def _minors(ctx, exe, quick):
    total = 0
    # harness self-test: a planted singular minor must be found, and the walk must agree with plain determinants
    for mx, colsk in (("cauchy", "24,24,24,24,24,24"), ("power", "40,40,40")):
        recs, fails, _ = base.run_native(exe, ["minors", "matrix=" + mx, "colsk=" + colsk, "plant=1", "brute=1"])
        fin = [d for k, d in recs if k == "OK"][0]
        brute = [d for k, d in recs if k == "BRUTE"][0]
        if int(fin["singular"]) == 0 or fin["singular"] != brute["singular"] or fin["minors"] != brute["minors"]:
            raise RuntimeError("minors self-test failed: walk %s vs plain determinants %s" % (fin, brute))
        ctx.add("selftest_minors_cross_checked", int(brute["minors"]))

    for mx in ("power", "power255ref", "cauchy"):
        colsk = QUICK_COLSK[mx] if quick else [255 if mx == "power255ref" else 251] * NROWS[mx]
        if _left(ctx) < 5:
            ctx.cap("time: minors of %s not run" % mx)
            continue
        recs, fails, final = base.run_native(exe, ["minors", "matrix=" + mx, "colsk=" + ",".join(map(str, colsk))],
                                             deadline=ctx.deadline - 3)
        base.report_fails(ctx, fails, final)
        for k, d in recs:
            if k == "MINORS_K":
                kk, n = int(d["k"]), int(d["minors"])
                ctx.set("minors/%s/k%d" % (mx, kk), n)
                ctx.set("minors/%s/k%d_columns" % (mx, kk), int(d["cols"]))
                total += n
                want = comb(NROWS[mx], kk) * comb(int(d["cols"]), kk)
                if d["complete"] == "1" and n != want:
                    raise RuntimeError("minors %s k=%d: counted %d, the space has %d" % (mx, kk, n, want))
                if d["complete"] != "1":
                    ctx.cap("time: minors %s k=%d incomplete (%d of %d; see MINORS_R lines: per row subset the first columns done)"
                            % (mx, kk, n, want))
            elif k == "MINORS_R":
                if int(d["minors"]):
                    ctx.nontrivial(("minors", mx, d["k"], d["rows"], d["firstcols_done"]))
                done, allc = d["firstcols_done"].split("/")
                if done != allc:
                    ctx.add("minors_incomplete_row_subsets", 1)
                    if len(ctx.caps) < 40:
                        ctx.cap("minors %s k=%s rows={%s}: first columns done %s, first missing %s" % (mx, d["k"], d["rows"], d["firstcols_done"], d["first_missing"]))
            elif k in ("OK", "CAPPED"):
                ctx.set("minors/%s/total" % mx, int(d["minors"]))
                ctx.set("minors/%s/prefixes_walked" % mx, int(d["prefixes"]))
    # one member of the k=4 space, recomputed on its own so that the sample is an actual evaluated case
    recs, fails, _ = base.run_native(exe, ["minors", "matrix=cauchy", "rows=0,2,3,5", "cols=7,40,41,250"], threads=1)
    ctx.sample({"part": "minors", "matrix": "cauchy", "rows": [0, 2, 3, 5], "cols": [7, 40, 41, 250],
                "det": [d for k, d in recs if k == "OK"][0]["det"]})
    return total


def _dec(ctx, exe, quick):
    total = 0
    notrun = []
    for mode in (0, 1):
        for nds, fullmax, pairs, fams in (QUICK_DEC if quick else THOROUGH_DEC):
            if _left(ctx) < 5:
                ctx.cap("time: decoder sweep mode=%d nds=%s not run" % (mode, nds))
                continue
            recs, fails, final = base.run_native(exe, ["dec", "mode=%d" % mode, "nds=" + nds, "fullmax=%d" % fullmax, "pairs=%d" % pairs,
                                                       "sizes=" + DEC_SIZES, "families=" + fams, "seed=%d" % ctx.seed],
                                                 deadline=ctx.deadline - 3)
            base.report_fails(ctx, fails, final)
            for k, d in recs:
                if k == "FN":
                    if d["runnable"] != "1":
                        ctx.cap("decoder %s not executable here (%s)" % (d["name"], d["why"]))
                    else:
                        ctx.set("decoder_run/" + d["name"], 1)
                elif k == "ITEM":
                    c = int(d["cases"])
                    total += c
                    ctx.add("decoder_cases/%s/%s" % ("power" if mode else "cauchy", d["fn"]), c)
                    ctx.nontrivial(("dec", d["fn"], d["nd"], d["size"], d["family"], mode, d["full"], pairs))
                    if d["partial"] == "1":
                        notrun.append("partial:%s/nd=%s/size=%s/%s/mode=%d" % (d["fn"], d["nd"], d["size"], d["family"], mode))
                    if (d["fn"], d["nd"], d["size"], d["family"]) in (("raid_recX_avx2", "8", "256", "ramp"), ("raid_rec", "33", "64", "dense")) and mode == 0:
                        ctx.sample({"part": "decoders", "fn": d["fn"], "nd": int(d["nd"]), "size": int(d["size"]), "family": d["family"],
                                    "mode": "cauchy", "failure_sets_run": c, "space": "all sets" if d["full"] == "1" else "all pairs + boundary alphabet",
                                    "one_of_them": {"failed_data": [0, 3, 7], "ip": [1, 2, 5]} if d["fn"] != "raid_rec" else {"np": 4, "failed": [1, 33, 35]}})
                elif k == "SKIPPED":
                    notrun.append("skipped:%s/nd=%s/size=%s/%s/mode=%d" % (d["fn"], d["nd"], d["size"], d["family"], mode))
            ctx.set("decoder_bounds/mode%d/nd{%s}" % (mode, nds),
                    "every failure set for nd<=%d; above: %s every set of size 3..6 over the boundary alphabet {0,1,31,32,33,nd-2,nd-1} (U parities); "
                    "sizes %s; families %s" % (fullmax, "all sets of size <=2 and" if pairs else "sets of size <=2 and", DEC_SIZES, fams))
    if notrun:
        ctx.set("decoder_items_not_completed", notrun)
        ctx.cap("time: %d decoder items skipped or cut short, listed in decoder_items_not_completed; first: %s"
                % (len(notrun), ", ".join(notrun[:4])))
    return total


def _chk(ctx, exe, quick):
    total = 0
    for mode in (0, 1):
        nds, sizes = (QUICK_CHK if quick else THOROUGH_CHK)[mode]
        if _left(ctx) < 5:
            ctx.cap("time: raid_check/raid_scan sweep mode=%d not run" % mode)
            continue
        recs, fails, final = base.run_native(exe, ["chk", "mode=%d" % mode, "nds=" + nds, "sizes=" + sizes, "seed=%d" % ctx.seed],
                                             deadline=ctx.deadline - 3)
        base.report_fails(ctx, fails, final)
        for k, d in recs:
            if k == "GEO":
                ctx.nontrivial(("chk", d["nd"], d["np"], d["size"], d["variant"], mode))
                if d["stripes_done"] != "8/8" or d["partial"] != "0":
                    ctx.cap("time: raid_check geometry nd=%s np=%s size=%s %s mode=%d incomplete" % (d["nd"], d["np"], d["size"], d["variant"], mode))
                if (d["nd"], d["np"], d["variant"]) == ("4", "4", "byte") and mode == 0:
                    ctx.sample({"part": "raid_check/raid_scan", "nd": 4, "np": 4, "size": int(d["size"]), "variant": "byte",
                                "pairs_run": int(d["checks"]), "must_accept": int(d["must_accept"]), "must_reject": int(d["must_reject"])})
            elif k in ("OK", "CAPPED"):
                m = "power" if mode else "cauchy"
                for f in ("checks", "must_accept", "must_reject", "unconstrained", "scans", "scans_exact"):
                    ctx.set("check_scan/%s/%s" % (m, f), int(d[f]))
                total += int(d["checks"]) + int(d["scans"])
    return total


def run(ctx):
    exe, gens, recs = base.build_raidmc()
    quick = ctx.tier == "quick"
    ctx.set("rule", "(a) minors: for every row subset R and every increasing column tuple, decided by exact elimination in GF(2^8) "
                    "(own arithmetic); one evaluation = one k x k sub-matrix, counts must equal C(rows,k)*C(cols,k). "
                    "(b) decoders: every declared raid_rec{1,2,X}_<variant>, raid_data, raid_rec; one evaluation = one call on one "
                    "(nd, np or ip, failure set, size, content family) with a reference-built consistent stripe; small nd: every failure "
                    "set, large nd: all sets of size <=2 plus every set of size 3..6 over {0,1,31,32,33,nd-2,nd-1} U parities. "
                    "(c) raid_check: every (corrupted set T, candidate set C), |T|,|C| < np; raid_scan: every T; two corruption "
                    "variants. distinct non-trivial = (matrix,k,row subset) / (decoder,nd,size,family,mode) / (nd,np,size,variant,mode) "
                    "groups; the individual cases are in distinct_nontrivial_native. VERIF_SEED only picks the prng content bytes.")
    ctx.assumptions.append("only genuine erasure patterns: survivors are consistent with the reference parity, so raid_rec rewriting "
                           "a surviving parity with identical bytes is not observable and not demanded otherwise")
    ctx.assumptions.append("decoders are called with the dispatcher-selected generator (raid_delta_gen uses raid_gen); the generators "
                           "themselves are C02's subject")
    ctx.assumptions.append("power (z) mode decoders are limited to the 251 tabulated columns; power255ref is the definition's 3x255 "
                           "matrix that the genz functions compute (tied to the code by C02)")
    ctx.set("decoders_declared", sorted(n for n, _, _ in recs))

    nm = _minors(ctx, exe, quick)
    nc = _chk(ctx, exe, quick)
    nd = _dec(ctx, exe, quick)
    ctx.set("minors_total", nm)
    ctx.set("decoder_cases_total", nd)
    ctx.set("check_scan_cases_total", nc)
    ctx.set("distinct_nontrivial_native", nm + nd + nc)
    ctx.set("evaluations", nm + nd + nc)


def replay(rp):
    return base.replay_args(rp)
