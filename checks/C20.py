"""C20  Reports and derived views reflect the recorded state faithfully  (arraymc over recorded states).

Recorded states (healthy with duplicate groups and odd names, unsynced, bad marks, hash migration) x trees with
duplicate groups of size 2..4 within and across disks, near-duplicates, names of arbitrary bytes, pre-populated
pool directories, share prefixes.  list / dup / status -G / pool are compared with the independently decoded
content file and with ground truth taken from the bytes.
"""
import itertools, os, stat
from vp import lab as labmod, explore as X, faults as F, content as C, par, taglog
from vp.lab import Config

LEVEL = "model_checking"
BUDGET = {"quick": 200, "thorough": 1200}

ODD_NAMES = ["sp ace", "nl\nx", "co:lon", "back\\sl", "\udcff\udcfe", "tab\tx", "cr\rx", "q'uote\"d", "\\d", "a\\nb", "unié中",
             "trail ", "-dash", "*star?", "[br]"]


def trees(tier):
    """name -> list of ops (before the sync)"""
    t = {}
    dup = [("write", "d1", "anchor", 700, 0), ("write", "d2", "anchor", 700, 1)]
    # group of 4 (two per disk), group of 3 (one disk), group of 2 (across), near duplicates
    for d, p in (("d1", "g4/a"), ("d1", "g4/b"), ("d2", "g4/a"), ("d2", "x/g4d")):
        dup.append(("writedata", d, p, "G4", 2500))
    for d, p in (("d1", "g3/a"), ("d1", "g3/b"), ("d1", "g3/c")):
        dup.append(("writedata", d, p, "G3", 1024))
    for d, p in (("d1", "g2"), ("d2", "g2")):
        dup.append(("writedata", d, p, "G2", 1))
    dup += [("writedata", "d1", "near1", "N", 3000), ("writeflip", "d2", "near2", "N", 3000, 2999),
            ("writeflip", "d2", "near3", "N", 3000, 0), ("writedata", "d2", "prefix", "N", 2048),
            ("write", "d1", "zero1", 0, 0), ("write", "d2", "zero2", 0, 1),
            ("symlink", "d1", "ln", "g2"), ("hardlink", "d1", "hl", "g2"), ("mkdir", "d2", "ed"),
            # hidden names
            ("write", "d1", ".profile", 100, 0), ("write", "d2", ".netrc", 90, 0), ("write", "d1", ".config/app.ini", 120, 0),
            ("symlink", "d2", ".latest", "g2")]
    t["dups"] = dup
    odd = [("write", "d1", "anchor", 700, 0), ("write", "d2", "anchor", 700, 1)]
    for i, n in enumerate(ODD_NAMES):
        odd.append(("write", "d1" if i % 2 else "d2", "o/" + n, 100 + i, 0))
    odd += [("symlink", "d1", "l:nk\n", "tar:get\n\\"), ("mkdir", "d2", "e:d\n")]
    t["odd"] = odd
    return t


def apply_tree_op(L, op):
    if op[0] == "writedata":
        _, d, p, tag, size = op
        L.write(d, p, L.gen("dupdata:" + tag, 5000)[:size])
    elif op[0] == "writeflip":
        _, d, p, tag, size, at = op
        b = bytearray(L.gen("dupdata:" + tag, 5000)[:size])
        b[at] ^= 1
        L.write(d, p, bytes(b))
    else:
        X.apply_op(L, op)


STATES = {
    "synced": [],
    "unsynced": [("write", "d1", "late", 1500, 0), ("rm", "d1", "anchor"), ("cmd", "sync", "-B", "1")],
    "bad": [("dmg", "d1"), ("cmd", "scrub", "-p", "full")],
    # silent errors recorded in the FIRST stripe of the array, in a middle one and in the last one used by d1
    "bad-spread": [("dmg", "d1", 0), ("dmg", "d1", "mid"), ("dmg", "d1", "last"), ("cmd", "scrub", "-p", "full")],
    "rehash": [("cmd", "rehash"), ("write", "d2", "late2", 1200, 0), ("cmd", "sync")],
    # a range-limited sync leaves the FIRST of the newly recorded files of d1 unsynced, the duplicates recorded after it synced
    "unsynced-head": [("write", "d1", "late0", 1500, 0), ("writedata", "d1", "late1", "G5", 1024), ("writedata", "d1", "late2", "G5", 1024),
                      ("writedata", "d2", "late3", "G5", 1024), ("writedata", "d2", "late4", "G4", 2500), ("sync-skip-first-new", "d1", 2)],
    "rehash-partial": [("cmd", "rehash"), ("clock", 11 * 86400), ("cmd", "scrub", "-p", "30")],
}


def dec(b):
    return b.decode(errors="surrogateescape")


def check_list(L, c, where):
    v = []
    r = L.run("list")
    rec_f, rec_l = {}, {}
    for d in c.disks.values():
        for f in d.files:
            rec_f[(d.name, f.sub)] = (f.size, f.mtime_sec, f.mtime_nsec if f.mtime_nsec is not None else -1)
        for k, sub, to in d.links:
            rec_l[(d.name, sub)] = ("symlink" if k == "s" else "hardlink", to)
    got_f, got_l = {}, {}
    rawnames = {}
    for line in r.tags.raw.split(b"\n"):
        if line.startswith(b"file:"):
            fields = line.split(b":")
            t = tuple(taglog.unesc(x) for x in fields)
            if len(fields) != 7 or not all(x.lstrip(b"-").isdigit() for x in fields[3:7]):
                v.append(dict(kind="list-tag-not-parseable", where=where, line=repr(line)))
                continue
            key = (t[1], t[2])
            if key in got_f:
                v.append(dict(kind="list-duplicate-entry", where=where, name=repr(key)))
            got_f[key] = (int(t[3]), int(t[4]), int(t[5]) if t[5] != b"4294967295" else -1)
            if len(fields) != 7:
                v.append(dict(kind="list-tag-field-count", where=where, line=repr(line)))
            rawnames.setdefault(fields[2], set()).add(t[2])
        elif line.startswith(b"link_"):
            fields = line.split(b":")
            t = tuple(taglog.unesc(x) for x in fields)
            if len(fields) != 4:
                v.append(dict(kind="list-tag-not-parseable", where=where, line=repr(line)))
                continue
            got_l[(t[1], t[2])] = (dec(t[0])[5:], t[3])
    if got_f != rec_f:
        v.append(dict(kind="list-files-differ-from-record", where=where, only_list=[repr(x) for x in sorted(set(got_f.items()) - set(rec_f.items()))[:3]],
                      only_record=[repr(x) for x in sorted(set(rec_f.items()) - set(got_f.items()))[:3]]))
    if got_l != rec_l:
        v.append(dict(kind="list-links-differ-from-record", where=where, list=repr(sorted(got_l.items())[:4]), record=repr(sorted(rec_l.items())[:4])))
    if r.rc != 0:
        v.append(dict(kind="list-exit", where=where, rc=r.rc))
    # the human readable output: every name without a raw newline appears on its own line
    return v


def check_dup(L, c, where, orig=None):
    """orig: bytes of the files as they were when recorded, for files silently damaged since (dup speaks about the recorded array)"""
    v = []
    orig = orig or {}
    r = L.run("dup")
    bs = c.block_size
    # ground truth: classes of non-empty fully synced files by content
    classes = {}
    for d in c.disks.values():
        for f in d.files:
            if f.size == 0 or any(st != C.BLK for st, _, _ in f.blocks):
                continue
            try:
                data = orig.get((d.name, f.sub)) or L.read(d.name.decode(), dec(f.sub))
            except OSError:
                continue
            classes.setdefault(data, set()).add((d.name, f.sub))
    want = {frozenset(s) for s in classes.values() if len(s) > 1}
    # reported pairs -> connected components
    parent = {}

    def find(x):
        while parent.setdefault(x, x) != x:
            parent[x] = parent[parent[x]]
            x = parent[x]
        return x
    npairs = 0
    for t in r.tags.get("dup"):
        if len(t) != 7:
            v.append(dict(kind="dup-tag-not-parseable", where=where, line=repr(t)))
            continue
        a, b = (t[1], t[2]), (t[3], t[4])
        npairs += 1
        parent[find(a)] = find(b)
    comp = {}
    for x in list(parent):
        comp.setdefault(find(x), set()).add(x)
    got = {frozenset(s) for s in comp.values()}
    rehash_in_progress = c.prevhash is not None
    if not rehash_in_progress:
        if got != want:
            v.append(dict(kind="dup-classes-differ", where=where, want=[sorted(map(repr, s)) for s in want][:3],
                          got=[sorted(map(repr, s)) for s in got][:3]))
        exp_pairs = sum(len(s) - 1 for s in want)
        if npairs != exp_pairs:
            v.append(dict(kind="dup-pair-count", where=where, want=exp_pairs, got=npairs))
        s = r.tags.summary()
        if s.get("dup_count") is not None and int(s["dup_count"]) != exp_pairs:
            v.append(dict(kind="dup-summary-count", where=where, want=exp_pairs, got=s.get("dup_count")))
    else:
        # during a hash migration only soundness is demanded: no pair of different contents
        for s in got:
            datas = set()
            for (dn, sub) in s:
                try:
                    datas.add(L.read(dn.decode(), dec(sub)))
                except OSError:
                    pass
            if len(datas) > 1:
                v.append(dict(kind="dup-reports-different-files", where=where, group=sorted(map(repr, s))))
    return v


def sname_wants_bad(where):
    return "/bad-spread" in where


def check_status(L, c, where):
    v = []
    r = L.run("status", "-G")
    tab = c.stripe_table()
    want = {}
    unsynced = unscrubbed = bad = rehash = 0
    badpos = []
    for pos in range(c.blockmax):
        per = tab.get(pos, {})
        states = [e[0] for ents in per.values() for e in ents]
        one_valid = any(s in (C.BLK, C.CHG, C.REP) for s in states)
        one_invalid = any(s in (C.CHG, C.REP, C.DELETED) for s in states)
        info = c.info[pos]
        if one_valid and one_invalid:
            unsynced += 1
        if info is not None:
            bad += info[1]
            if info[1]:
                badpos.append(pos)
            rehash += info[2]
            unscrubbed += info[3]
            want[pos] = (info[0], one_valid, one_invalid, info[1], info[2])
        else:
            want[pos] = (None, one_valid, one_invalid, False, False)
    got = {}
    for t in r.tags.get("block"):
        if len(t) != 7:
            v.append(dict(kind="status-tag-not-parseable", where=where, line=repr(t)))
            continue
        got[int(t[1])] = (int(t[2]), t[3] == b"used", t[4] == b"unsynced", t[5] == b"bad", t[6] == b"rehash")
    for t in r.tags.get("block_noinfo"):
        got[int(t[1])] = (None, t[2] == b"used", t[3] == b"unsynced", False, False)
    if got != want:
        diff = [p for p in sorted(set(got) | set(want)) if got.get(p) != want.get(p)]
        v.append(dict(kind="status-block-lines-differ", where=where, stripes=diff[:5],
                      got=[got.get(p) for p in diff[:3]], want=[want.get(p) for p in diff[:3]]))
    s = {t[1].decode(): t[2:] for t in r.tags.get("summary")}
    for key, val in (("has_unsynced", unsynced), ("has_unscrubbed", unscrubbed), ("has_rehash", rehash)):
        if key not in s or int(s[key][0]) != val:
            v.append(dict(kind="status-counter-" + key, where=where, want=val, got=repr(s.get(key))))
    if "has_bad" not in s or int(s["has_bad"][0]) != bad:
        v.append(dict(kind="status-counter-has_bad", where=where, want=bad, got=repr(s.get("has_bad"))))
    elif badpos and (len(s["has_bad"]) < 3 or (int(s["has_bad"][1]), int(s["has_bad"][2])) != (badpos[0], badpos[-1])):
        v.append(dict(kind="status-bad-range", where=where, want=(badpos[0], badpos[-1]), got=repr(s.get("has_bad"))))
    if sname_wants_bad(where) and len(badpos) < 3:
        v.append(dict(kind="HARNESS-bad-spread-not-reached", where=where, bad=badpos))
    return v


def check_pool(L, c, where, share):
    v = []
    pool = L.p("pool")
    # pre-populate: stale links, an empty dir tree, foreign files, a stale link over a future name
    os.makedirs(os.path.join(pool, "stale/dir/empty"), exist_ok=True)
    os.makedirs(os.path.join(pool, "keepdir"), exist_ok=True)
    os.symlink("/nonexistent/x", os.path.join(pool, "stale/oldlink"))
    os.symlink("/nonexistent/y", os.path.join(pool, "toplink"))
    with open(os.path.join(pool, "keepdir/foreign.txt"), "w") as f:
        f.write("foreign")
    with open(os.path.join(pool, "foreign-top"), "w") as f:
        f.write("foreign")
    first = next(iter(c.disks.values()))
    if first.files:
        tgt = os.path.join(pool.encode(), first.files[0].sub)
        os.makedirs(os.path.dirname(tgt), exist_ok=True)
        if not os.path.lexists(tgt):
            os.symlink(b"/nonexistent/z", tgt)
    r = L.run("pool")
    if r.rc != 0:
        v.append(dict(kind="pool-exit", where=where, rc=r.rc, out=r.text()[-300:]))
        return v
    want = {}
    dup_paths = set()
    for d in c.disks.values():
        base = (share.encode() + b"/" + d.name + b"/") if share else (L.p(d.name.decode()).encode() + b"/")
        for sub in [f.sub for f in d.files] + [l[1] for l in d.links]:
            if sub in want:
                dup_paths.add(sub)
                continue
            want[sub] = base + sub
    got = {}
    foreign = set()
    emptydirs = []
    pb = pool.encode()
    for root, dirs, files in os.walk(pb):
        if root != pb and not dirs and not files:
            emptydirs.append(os.path.relpath(root, pb))
        for n in files + [x for x in dirs if os.path.islink(os.path.join(root, x))]:
            fp = os.path.join(root, n)
            rel = os.path.relpath(fp, pb)
            if os.path.islink(fp):
                got[rel] = os.readlink(fp)
            else:
                foreign.add(rel)
    if got != want:
        v.append(dict(kind="pool-links-differ", where=where,
                      missing=[repr(k) for k in sorted(set(want) - set(got))[:3]], extra=[repr(k) for k in sorted(set(got) - set(want))[:3]],
                      wrong=[repr((k, got[k], want[k])) for k in sorted(set(got) & set(want)) if got[k] != want[k]][:3]))
    if foreign != {b"keepdir/foreign.txt", b"foreign-top"}:
        v.append(dict(kind="pool-foreign-files", where=where, got=sorted(map(repr, foreign))))
    if emptydirs:
        v.append(dict(kind="pool-empty-dirs-left", where=where, dirs=[repr(x) for x in emptydirs]))
    if not share:
        for rel, to in got.items():
            if not os.path.lexists(to):
                v.append(dict(kind="pool-link-does-not-resolve", where=where, link=repr(rel), to=repr(to)))
                break
    return v


def pool_links(L):
    pb = L.p("pool").encode()
    got = {}
    for root, dirs, files in os.walk(pb):
        for n in files + [x for x in dirs if os.path.islink(os.path.join(root, x))]:
            fp = os.path.join(root, n)
            if os.path.islink(fp):
                got[os.path.relpath(fp, pb)] = os.readlink(fp)
    return got


def pool_wanted(L, c, share):
    want = {}
    for d in c.disks.values():
        base = (share.encode() + b"/" + d.name + b"/") if share else (L.p(d.name.decode()).encode() + b"/")
        for sub in [f.sub for f in d.files] + [l[1] for l in d.links]:
            want.setdefault(sub, base + sub)
    return want


def check_repool(L, where, share):
    """an existing pool must follow the array: a file moved to another disk keeping its relative path and time-stamp,
    and a changed share prefix, both only change the TARGET of links that already exist"""
    v = []
    # hidden (dot) names: one is moved to the other disk keeping path and stamp, the others (file, link, whole hidden directory)
    # are deleted; after sync + pool the pool must again hold exactly the links of the recorded state
    c = L.content()
    dots = [(d.name.decode(), f.sub.decode(errors="surrogateescape")) for d in c.disks.values() for f in d.files
            if any(part.startswith(".") for part in f.sub.decode(errors="surrogateescape").split("/"))]
    dots += [(d.name.decode(), sub.decode(errors="surrogateescape")) for d in c.disks.values() for k, sub, to in d.links
             if any(part.startswith(".") for part in sub.decode(errors="surrogateescape").split("/"))]
    if dots:
        (d0, s0) = dots[0]
        other = [x for x in L.cfg.disknames if x != d0][0]
        if os.path.isfile(L.p(d0, s0)) and not os.path.islink(L.p(d0, s0)) and not os.path.lexists(L.p(other, s0)):
            L.write(other, s0, L.read(d0, s0), L.mtime_ns(d0, s0))
        for dn, sub in dots:
            if os.path.lexists(L.p(dn, sub)):
                L.rm(dn, sub)
        r = L.run("sync")
        if r.rc == 0:
            r = L.run("pool")
            c2 = L.content()
            got, want = pool_links(L), pool_wanted(L, c2, share)
            if r.rc != 0 or got != want:
                wrong = [repr((k, got.get(k), want.get(k))) for k in sorted(set(got) | set(want)) if got.get(k) != want.get(k)][:3]
                v.append(dict(kind="pool-not-following-hidden-names", where=where, wrong=wrong))
    c = L.content()
    moved = None
    for d in c.disks.values():
        for f in d.files:
            other = [x for x in L.cfg.disknames if x != d.name.decode()]
            sub = f.sub.decode(errors="surrogateescape")
            if f.size > 0 and other and not os.path.lexists(L.p(other[0], sub)) and "/" not in sub:
                moved = (d.name.decode(), other[0], sub)
                break
        if moved:
            break
    if moved:
        src, dst, sub = moved
        mt = L.mtime_ns(src, sub)
        data = L.read(src, sub)
        L.write(dst, sub, data, mt)
        L.rm(src, sub)
        r = L.run("sync")
        if r.rc == 0:
            r = L.run("pool")
            c2 = L.content()
            got, want = pool_links(L), pool_wanted(L, c2, share)
            if r.rc != 0 or got != want:
                wrong = [repr((k, got.get(k), want.get(k))) for k in sorted(set(got) | set(want)) if got.get(k) != want.get(k)][:3]
                v.append(dict(kind="pool-not-following-a-moved-file", where=where, moved=moved, wrong=wrong))
    # change the share prefix
    newshare = "/other/share" if share else "/share/added"
    L.cfg = L.cfg.clone(extra_conf=["share %s" % newshare])
    L.write_conf()
    r = L.run("pool")
    c3 = L.content()
    got, want = pool_links(L), pool_wanted(L, c3, newshare)
    if r.rc != 0 or got != want:
        wrong = [repr((k, got.get(k), want.get(k))) for k in sorted(set(got) | set(want)) if got.get(k) != want.get(k)][:3]
        v.append(dict(kind="pool-not-following-share-change", where=where, wrong=wrong))
    return v


def job(j):
    cfg, tname, tree_ops, sname, state_ops, share, seed = j
    v = []
    where = "%s/%s/%s%s" % (cfg.short(), tname, sname, "/share" if share else "")
    cfg2 = cfg.clone(pool=True, extra_conf=["share %s" % share] if share else [])
    with labmod.Lab(cfg2, seed=seed) as L:
        for op in tree_ops:
            apply_tree_op(L, op)
        r = L.run("sync")
        if r.rc != 0:
            raise RuntimeError("sync failed\n" + r.text())
        orig = {}
        for op in state_ops:
            if op[0] == "dmg":
                c = L.content()
                if not orig:
                    for d in c.disks.values():
                        for f in d.files:
                            orig[(d.name, f.sub)] = L.read(d.name.decode(), dec(f.sub))
                used = sorted(pos for f in c.disks[op[1].encode()].files for _, pos, _ in f.blocks)
                at = op[2] if len(op) > 2 else 0
                at = used[-1] if at == "last" else used[len(used) // 2] if at == "mid" else at
                F.damage_data_block(L, c, op[1], at, "whole")
            elif op[0] == "sync-skip-first-new":
                c = L.content()
                used = max([pos for f in c.disks[op[1].encode()].files for _, pos, _ in f.blocks] + [-1]) + 1
                r = L.run("sync", "-S", str(used + op[2]))
                c = L.content()
                fl = c.disks[op[1].encode()].files
                uns = [i for i, f in enumerate(fl) if f.size and any(st != C.BLK for st, _, _ in f.blocks)]
                if r.rc != 0 or not uns or not any(f.size and all(st == C.BLK for st, _, _ in f.blocks) for f in fl[uns[0] + 1:]):
                    raise RuntimeError("state unsynced-head not reached\n" + r.text())
            elif op[0] in ("writedata", "writeflip"):
                apply_tree_op(L, op)
            else:
                X.apply_op(L, op)
        c = L.content()
        v += check_list(L, c, where)
        v += check_dup(L, c, where, orig)
        v += check_status(L, c, where)
        v += check_pool(L, c, where, share)
        if sname == "synced":
            v += check_repool(L, where, share)
        # second copy tells the same story
    return dict(viols=v)


def run(ctx):
    tier = ctx.tier
    cfgs = [Config(levels=1, ndisks=2)] + ([Config(levels=2, ndisks=2, hashkind="spooky2", uuid=True)] if tier == "thorough" else [])
    ctx.set("rule", "trees {duplicate groups of 4/3/2 within and across disks + near-duplicates + empty files + links; %d odd "
                    "names} x recorded states %r x {no share, share prefix}; list, dup, status -G, pool each compared with "
                    "the independent decode / byte-level ground truth. non-trivial = every (tree, state, share) case"
                    % (len(ODD_NAMES), list(STATES)))
    jobs = []
    for cfg in cfgs:
        for tname, tops in trees(tier).items():
            for sname, sops in STATES.items():
                for share in ("", "/share/prefix"):
                    jobs.append((cfg, tname, tops, sname, sops, share, ctx.seed))
    evals = 0
    done = 0
    for j, r in par.pmap(job, jobs, deadline=ctx.deadline):
        done += 1
        evals += 4
        ctx.nontrivial((j[0].short(), j[1], j[3], j[5]))
        ctx.outcome((j[1], j[3], len(r["viols"])))
        for v in r["viols"]:
            ctx.violation("C20/%s" % v["kind"], "%s: %s" % (v["kind"], v["where"]),
                          dict(cfg=j[0].describe(), tree=j[1], state=j[3], share=j[5], violation=v))
        if done in (1, 9):
            ctx.sample(dict(cfg=j[0].short(), tree=j[1], state=j[3], share=j[5], commands=["list", "dup", "status -G", "pool"]))
    if done < len(jobs):
        ctx.cap("deadline (%d of %d cases)" % (done, len(jobs)))
    ctx.set("evaluations", evals)
    ctx.set("states", done)
    ctx.set("transitions", evals)
    ctx.set("traces_validated_against_impl", evals)
    ctx.assumptions += ["unambiguity is judged on the tagged log; dup is judged for equivalence classes outside a hash migration and only for soundness during one",
                        "a pool has one name space: when two disks record the same relative path one link resolving to one of them is expected"]


def replay(r):
    cfg = Config.from_dict(r["cfg"])
    t = trees("thorough")[r["tree"]]
    out = job((cfg, r["tree"], t, r["state"], STATES[r["state"]], r["share"], 0))
    for v in out["viols"]:
        print("  ", v)
    return not out["viols"]
