"""C01  Complete recovery from any loss within the parity level  (arraymc).

Phase 1: BFS over histories (adds, deletes, rewrites, moves, partial/forced/realloc syncs) collects every
distinct array state that follows a successful complete sync.
Phase 2: for every such state, every fault set within the parity level is applied to a fresh copy of the
state, `fix` then `check` are run and the result is compared with the snapshot taken at sync time.
"""
import os
from vp import lab as labmod, explore as X, faults as F, content as C, par
from vp.lab import Config

LEVEL = "model_checking"
BUDGET = {"quick": 240, "thorough": 2400}

ODD = "\udcff\udcfe"


def configs(tier):
    cs = [Config(levels=1, ndisks=2),
          Config(levels=2, ndisks=3, contents=["c0/content", "d1/.content"], splits={0: 2, 1: 2}, parity_limit=6144),
          Config(levels=3, z=True, ndisks=3, hashkind="spooky2", hashsize=8),
          Config(levels=6, ndisks=2, uuid=True),
          Config(levels=2, ndisks=3, tag="hole"),
          # (the FIRST content copy lives in a sub-directory of a data disk, the second on its own device)
          Config(levels=2, ndisks=2, tag="rehash", contents=["d1/meta/.content", "c0/content"]),
          Config(levels=1, ndisks=4, tag="sparse")]
    if tier == "thorough":
        cs += [Config(levels=3, ndisks=4, blocksize=2), Config(levels=4, ndisks=3, hashkind="spooky2", selftest=True),
               Config(levels=5, ndisks=2, contents=["c0/content", "c1/content", "d2/sub/.content"]),
               Config(levels=2, ndisks=4, hashsize=4), Config(levels=1, ndisks=1)]
    return cs


def init_ops(cfg):
    ops = [("write", d, "anchor", 700, 0) for d in cfg.disknames]
    ops += [("write", "d1", "a", 2500, 0), ("write", "d1", "sp ace", 1, 0), ("write", "d1", "dir/co:lon", 1024, 0),
            ("write", "d1", "nl\nx", 1023, 0), ("symlink", "d1", "ln", "a"), ("hardlink", "d1", "hl", "a"),
            ("mkdir", "d1", "ed"),
            # twins: same size, same second, different sub-second part (two different time-stamps)
            ("writeat", "d1", "tw/x", 1500, 0, (labmod.T0 + 5000) * 10**9 + 111111111),
            ("writeat", "d1", "tw/y", 1500, 1, (labmod.T0 + 5000) * 10**9 + 222222222)]
    if cfg.ndisks >= 2:
        ops += [("write", "d2", "b/c", 1025, 0), ("write", "d2", "back\\sl", 5000, 0), ("write", "d2", ODD, 0, 0),
                ("mkdir", "d2", "e1/e2"), ("symlink", "d2", "b/abs", "/nonexistent/target")]
    if cfg.tag == "sparse":
        # disks whose whole content is one symbolic link / one empty directory (no anchor, no file)
        ops = [o for o in ops if o[1] not in ("d3", "d4")]
        ops += [("symlink", "d3", "only-a-link", "../d1/a"), ("mkdir", "d4", "only/an/empty/dir")]
    elif cfg.ndisks >= 3:
        ops += [("write", "d3", "dir/c", 3000, 0), ("write", "d3", ".hid", 10, 0)]
        if cfg.tag == "hole":
            # the disk that will sit AFTER the position hole also holds what has no blocks: empty files, links, empty directories
            ops += [("write", "d3", "sub/zero", 0, 0), ("symlink", "d3", "sl3", "dir/c"), ("hardlink", "d3", "sub/hl3", "dir/c"),
                    ("mkdir", "d3", "sub/ed3/deep")]
    if cfg.ndisks >= 4 and cfg.tag != "sparse":
        ops += [("write", "d4", "x/y/z", 4096, 0)]
    ops.append(("cmd", "sync"))
    if cfg.tag == "rehash":
        # a hash migration is scheduled and stays in progress during the history
        ops += [("cmd", "rehash")]
    if cfg.tag == "hole":
        # remove the middle disk the way a user does: empty it, sync -E, drop it from the configuration
        ops += [("emptydisk", "d2"), ("cmd", "sync", "-E"), ("dropdisk", "d2"), ("write", "d3", "late", 2500, 0),
                ("cmd", "sync")]
    return ops


def alphabet(cfg, tier):
    ops = [("rm", "d1", "a"), ("write", "d1", "big", 5000, 0), ("mv", "d1", "sp ace", "d1", "dir/moved"),
           ("cmd", "sync", "-B", "2"), ("cmd", "sync"), ("cmd", "sync", "-F"), ("cmd", "sync", "-R")]
    if cfg.ndisks >= 2 and cfg.tag != "hole":
        ops += [("write", "d2", "b/c", 2500, 1), ("mv", "d2", "back\\sl", "d1", "back\\sl")]
    if cfg.tag == "hole":
        ops += [("write", "d3", "dir/c", 1025, 1)]
    if tier == "thorough":
        ops += [("rm", "d1", "hl"), ("write", "d1", "nl\nx", 1023, 1), ("cmd", "sync", "-S", "2", "-B", "2")]

    def fn(hist, info):
        last = hist[-1]
        return [op for op in ops if not (op == last and op[0] == "cmd")]
    return fn


COMPLETE_SYNC = {("cmd", "sync"), ("cmd", "sync", "-F"), ("cmd", "sync", "-R")}


def step(L, op, res, hist):
    viols = [v for v in X.c06(L, "init" if op is None else " ".join(map(str, op)))]
    info = {}
    if op is None or (tuple(op) in COMPLETE_SYNC and res.rc == 0):
        info["synced"] = True
    return viols, info


# ----------------------------------------------------------------------------- phase 2

def fault_menu(cfg, c, tier):
    """list of fault specs for one synced state"""
    devs = [("disk", d) for d in cfg.disknames] + [("parity", l) for l in range(cfg.levels)]
    n = cfg.levels
    menu = []
    can_corrupt = cfg.hashsize >= 8
    for s in F.subsets(devs, n):
        menu.append(("devices", s, "lost"))
        if can_corrupt:
            menu.append(("devices", s, "corrupt"))
            if len(s) >= 2:
                menu.append(("devices", s, "mixed"))
    width = len(devs)
    if can_corrupt:
        for phase in range(width):
            menu.append(("rotate", phase))
            # the same pattern with files losing their tail (size changes, so no look-alike copy of the file can stand in)
            menu.append(("rotate-cut", phase))
    # single file damages
    for d in c.disks.values():
        for f in d.files:
            menu.append(("file", d.name.decode(), f.sub, "delete"))
            if f.size > 1:
                menu.append(("file", d.name.decode(), f.sub, "truncate"))
    # one recorded file moved over another one of the same size on the same disk (the target now has the other's inode and bytes,
    # the source is missing): damage confined to one disk
    for d in c.disks.values():
        for x in d.files:
            for y in d.files:
                if x is not y and x.size == y.size and x.size > 0 and x.inode != y.inode:
                    menu.append(("file", d.name.decode(), (y.sub, x.sub), "mv-over"))
    for d in c.disks.values():
        for k, sub, to in d.links:
            menu.append(("file", d.name.decode(), sub, "delete"))
            if k == "s":
                # a symbolic link re-pointed: to a proper prefix of its recorded target, and to the recorded target plus one character
                if len(to) > 1:
                    menu.append(("file", d.name.decode(), sub, "retarget-prefix"))
                menu.append(("file", d.name.decode(), sub, "retarget-longer"))
        for sub in d.dirs:
            menu.append(("file", d.name.decode(), sub, "rmdir"))
    return menu


def excluded_paths(cfg):
    """paths below data disks that are not part of the array (content copies and their tmp/lock)"""
    out = set()
    for cpath in cfg.contents:
        top, _, rest = cpath.partition("/")
        if top in cfg.disknames:
            out.add((top, rest))
            out.add((top, rest + ".lock"))
            out.add((top, rest + ".tmp"))
    return out


def apply_fault(L, c, spec):
    cfg = L.cfg
    excl = {p for d, p in excluded_paths(cfg)}
    if spec[0] == "devices":
        _, s, kind = spec
        for i, dev in enumerate(s):
            k = kind if kind != "mixed" else ("lost" if i == 0 else "corrupt")
            F.apply_device_fault(L, tuple(dev), k, excluded=excl)
    elif spec[0] in ("rotate", "rotate-cut"):
        phase = spec[1]
        devs = [("disk", d) for d in cfg.disknames] + [("parity", l) for l in range(cfg.levels)]
        width = len(devs)
        used = F.used_stripes(c)
        for pos in sorted(used):
            for j in range(cfg.levels):
                t, x = devs[(pos + phase + j) % width]
                if t == "disk":
                    F.damage_data_block(L, c, x, pos, "cut" if spec[0] == "rotate-cut" else "whole" if j % 2 else "flip0")
                else:
                    F.damage_parity_block(L, c, x, pos, "whole")
    elif spec[0] == "file":
        _, d, sub, how = spec
        if how == "mv-over":
            enc = lambda q: q if isinstance(q, bytes) else q.encode(errors="surrogateescape")
            os.replace(os.path.join(L.p(d).encode(), enc(sub[0])), os.path.join(L.p(d).encode(), enc(sub[1])))
            return
        fp = os.path.join(L.p(d).encode(), sub if isinstance(sub, bytes) else sub.encode(errors="surrogateescape"))
        if how in ("retarget-prefix", "retarget-longer"):
            to = os.readlink(fp)
            os.unlink(fp)
            os.symlink(to[:-1] if how == "retarget-prefix" else to + b"x", fp)
        elif how == "delete":
            os.unlink(fp)
        elif how == "rmdir":
            try:
                os.rmdir(fp)
            except OSError:
                pass        # a recorded "empty" directory that holds only excluded entries: nothing to lose
        else:
            st = os.lstat(fp)
            with open(fp, "r+b") as fh:
                fh.truncate(st.st_size // 2)
            os.utime(fp, ns=(st.st_mtime_ns, st.st_mtime_ns))


def recovery_oracle(L, want_tree, c_sync, fixres, where):
    """C01 oracle after fix; returns list of violation dicts"""
    v = []
    cfg = L.cfg
    excl = excluded_paths(cfg)
    # mtime exception: another recorded file with the same size and time-stamp
    stamps = {}
    for d in c_sync.disks.values():
        for f in d.files:
            stamps.setdefault((f.size, f.mtime_sec, f.mtime_nsec), []).append((d.name.decode(), f.sub))
    ign = set()
    for k, fs in stamps.items():
        if len(fs) > 1:
            for d, sub in fs:
                ign.add((d, sub.decode(errors="surrogateescape")))
    if fixres.rc != 0:
        v.append(dict(kind="fix-exit-%s" % fixres.rc, where=where, out=fixres.text()[-400:]))
    if fixres.tags.get("status", "unrecoverable") or fixres.tags.get("unrecoverable"):
        v.append(dict(kind="fix-reports-unrecoverable", where=where))
    s = fixres.tags.summary()
    if s.get("error_unrecoverable", "0") != "0":
        v.append(dict(kind="fix-summary-unrecoverable", where=where, n=s.get("error_unrecoverable")))
    diffs = X.tree_equal(L, want_tree, ignore_mtime=ign,
                         allow_extra=lambda d, p: (d, p) in excl)
    diffs = [x for x in diffs if not ((x[0], x[1]) in excl)]
    for x in diffs[:5]:
        v.append(dict(kind="tree-" + x[2], where=where, disk=x[0], path=repr(x[1]), detail=[repr(y) for y in x[3:]]))
    chk = L.run("check")
    if chk.rc != 0 or chk.tags.summary().get("error", "0") != "0" or chk.tags.summary().get("exit") != "ok":
        v.append(dict(kind="check-after-fix-fails", where=where, rc=chk.rc, summary=chk.tags.summary(),
                      out=chk.text()[-300:]))
    for o in X.c06(L, where):
        o["kind"] = "after-fix-" + o["kind"]
        v.append(o)
    return v


def fault_job(job):
    cfg, saved, spec, seed = job
    L = X.materialize(cfg, saved, seed)
    c = L.content()
    want = X.data_tree(L)
    apply_fault(L, c, spec)
    res = L.run("fix")
    where = repr(spec)
    viols = recovery_oracle(L, want, c, res, where)
    recovered = len(res.tags.get("status", "recovered"))
    return dict(viols=viols, recovered=recovered, rc=res.rc)


def spec_key(spec):
    if spec[0] == "devices":
        return "devices/%s/%d" % (spec[2], len(spec[1]))
    if spec[0] in ("rotate", "rotate-cut"):
        return spec[0]
    return "file/" + spec[3]


def run(ctx):
    tier = ctx.tier
    depth = 2 if tier == "quick" else 3
    ctx.set("rule", "phase 1: BFS depth<=%d over {rm, add, rewrite, move, cross-disk move, sync -B, sync, sync -F, sync -R} "
                    "from a synced tree (sizes 0,1,1023..5000, odd names, sym/hard links, empty dirs); every distinct state "
                    "following a successful complete sync is a target. phase 2: every subset of <=N devices x {lost, "
                    "corrupted, mixed}, every rotating per-stripe pattern of N damaged blocks, every single file/link/dir "
                    "deleted or truncated; fix + check + tree comparison. non-trivial = fix had to recover >=1 item" % depth)
    total_states = total_trans = 0
    evals = 0
    for cfg in configs(tier):
        if ctx.out_of_time():
            ctx.cap("deadline before configuration %s" % cfg.short())
            break
        targets = []

        def on_violation(v, hist, cfg=cfg):
            ctx.violation("C01/history/%s" % v["kind"], "%s in %s after %s" % (v["kind"], cfg.short(), v["where"]),
                          dict(cfg=cfg.describe(), history=hist, violation=v))

        # collect synced states (the Explorer keeps the saved state of every new state in its frontier)
        class Ex(X.Explorer):
            pass
        ex = X.Explorer(ctx, cfg, init_ops(cfg), alphabet(cfg, tier), step, depth, label=cfg.short(), seed=ctx.seed)
        orig_job = ex._job

        collected = {}

        def job_and_collect(job, ex=ex, orig_job=orig_job):
            r = orig_job(job)
            return r
        ex._job = job_and_collect
        # run BFS manually level by level to capture states
        states = bfs_collect(ctx, ex, on_violation)
        total_states += ex.states
        total_trans += ex.transitions
        ctx.set("synced_states[%s]" % cfg.short(), len(states))
        jobs = []
        for saved, hist in states:
            L = X.materialize(cfg, saved, ctx.seed)
            c = L.content()
            cfgx = L.cfg      # the configuration as it is in that state (a disk may have been dropped)
            for spec in fault_menu(cfgx, c, tier):
                jobs.append((cfgx, saved, spec, ctx.seed))
        hist_of = {id(s): h for s, h in states}
        done = 0
        for job, r in par.pmap(fault_job, jobs, deadline=ctx.deadline):
            done += 1
            evals += 1
            spec = job[2]
            ctx.outcome((spec_key(spec), r["rc"]))
            if r["recovered"] > 0:
                ctx.nontrivial((cfg.short(), hist_of[id(job[1])].__repr__(), repr(spec)))
            for v in r["viols"]:
                ctx.violation("C01/%s/%s" % (spec_key(spec), v["kind"]),
                              "%s in %s after fault %r" % (v["kind"], cfg.short(), spec),
                              dict(cfg=cfg.describe(), history=hist_of[id(job[1])], fault=spec, violation=v))
            if done == 1:
                ctx.sample(dict(cfg=cfg.short(), history_tail=hist_of[id(job[1])][-3:], fault=spec))
        if done < len(jobs):
            ctx.cap("%s: deadline during fault sweep (%d of %d fault cases done)" % (cfg.short(), done, len(jobs)))
        ctx.set("fault_cases[%s]" % cfg.short(), done)
    ctx.set("states", total_states)
    ctx.set("transitions", total_trans + evals)
    ctx.set("evaluations", evals)
    ctx.set("traces_validated_against_impl", total_trans + evals)
    ctx.assumptions += ["one content copy (outside the data disks) always survives",
                        "corruption shapes are only used with hash size >= 8 so that the oracle never depends on a hash collision",
                        "content copies stored on a data disk are not part of the array and are not expected back"]


def bfs_collect(ctx, ex, on_violation):
    """run the explorer and return [(saved_state, history)] of the states that follow a complete sync"""
    out = []
    seen_sync = set()
    orig_step = ex.step_fn

    r0 = ex._init(None)
    seen = {r0["canon"]}
    ex.states = 1
    for v in r0["viols"]:
        on_violation(v, list(ex.init_ops))
    out.append((r0["saved"], list(ex.init_ops)))
    seen_sync.add(r0["canon"])
    frontier = [(r0["saved"], list(ex.init_ops), r0["info"])]
    for depth in range(1, ex.depth + 1):
        jobs = [(saved, hist, op) for saved, hist, info in frontier for op in ex.alphabet_fn(hist, info)]
        nxt = []
        level, level_sync = {}, {}
        done = 0
        for job, r in par.pmap(X._job_global, X.make_jobs(ex, jobs), deadline=ctx.deadline):
            job = job[3:]
            done += 1
            ex.transitions += 1
            hist = job[1] + [job[2]]
            for v in r["viols"]:
                on_violation(v, hist)
            # (completion order is not fixed: a class is represented by its smallest history of this depth)
            if r["info"].get("synced") and r["canon"] not in seen_sync:
                cur = level_sync.get(r["canon"])
                if cur is None or repr(hist) < repr(cur[1]):
                    level_sync[r["canon"]] = (X.intern_saved(r["saved"]), hist)
            if r["canon"] in seen:
                continue
            cur = level.get(r["canon"])
            if cur is None or repr(hist) < repr(cur[1]):
                level[r["canon"]] = (X.intern_saved(r["saved"]), hist, r["info"])
        seen_sync.update(level_sync)
        out.extend(sorted(level_sync.values(), key=lambda t: repr(t[1])))
        seen.update(level)
        ex.states += len(level)
        nxt.extend(level.values())
        if done < len(jobs):
            ctx.cap("%s: deadline in phase 1 at depth %d" % (ex.label, depth))
            break
        ex.maxdepth = depth
        nxt.sort(key=lambda t: repr(t[1]))
        frontier = nxt
    out.sort(key=lambda t: repr(t[1]))
    return out


def replay(r):
    cfg = Config.from_dict(r["cfg"])
    with labmod.Lab(cfg) as L:
        for op in r["history"]:
            X.apply_op(L, tuple(op))
        if "fault" not in r:
            v = X.c06(L, "replay")
        else:
            c = L.content()
            want = X.data_tree(L)
            spec = r["fault"]
            if spec[0] == "devices":
                spec = (spec[0], [tuple(x) for x in spec[1]], spec[2])
            if spec[0] == "file" and isinstance(spec[2], str) and spec[2].startswith("hex:"):
                spec = (spec[0], spec[1], bytes.fromhex(spec[2][4:]), spec[3])
            if spec[0] == "file" and isinstance(spec[2], list):
                spec = (spec[0], spec[1], tuple(bytes.fromhex(q[4:]) if isinstance(q, str) and q.startswith("hex:") else q for q in spec[2]), spec[3])
            apply_fault(L, c, tuple(spec))
            res = L.run("fix")
            v = recovery_oracle(L, want, c, res, "replay")
        for x in v:
            print("  ", x)
        return not v
