"""C08  I/O errors never turn into false protection  (crashmc: every single failing pread / pwrite).

The command (sync with pending adds, sync -F, scrub -p full) is run once fault free with read tracing to list,
per file, every pread on every data file and parity file and every pwrite on every parity file.  Then EVERY one
of those calls is made to fail (EIO; ENOSPC too for parity writes), one per run (pairs in thorough), for each
io-cache depth, and the result is judged.
"""
import os, itertools
from vp import lab as labmod, explore as X, content as C, par
from vp.lab import Config

LEVEL = "fault_enumeration"
BUDGET = {"quick": 240, "thorough": 2000}
EIO, ENOSPC = 5, 28
SHORT = -1          # not an error: the pread returns half of the bytes asked for (libvp)


def scenarios(tier):
    base = [("write", "d1", "anchor", 700, 0), ("write", "d2", "anchor", 700, 0), ("write", "d1", "A", 2500, 0),
            ("write", "d2", "K", 1025, 0), ("cmd", "sync")]
    adds = [("write", "d2", "B", 3000, 0), ("write", "d1", "N", 4000, 0)]
    sc = [("sync-adds", Config(levels=2, ndisks=2), base + adds, ("sync",)),
          ("sync-full", Config(levels=1, ndisks=2), base, ("sync", "-F")),
          ("scrub", Config(levels=2, ndisks=2), base + adds + [("cmd", "sync")], ("scrub", "-p", "full"))]
    # scrub runs in which EVERY selected stripe is hit (no healthy stripe in the run): -p new after one small new file
    scrubbed = base + [("cmd", "scrub", "-p", "full"), ("write", "d1", "late", 1000, 0), ("cmd", "sync")]
    sc += [("scrub-new-only-failing", Config(levels=1, ndisks=2), scrubbed, ("scrub", "-p", "new")),
           ("scrub-new-only-failing", Config(levels=2, ndisks=2), scrubbed, ("scrub", "-p", "new"))]
    # a scrub that meets an ordinary file error (a file removed since the sync) and the injected I/O error in the SAME stripe
    sc += [("scrub-fileerror", Config(levels=1, ndisks=2), base + adds + [("cmd", "sync"), ("rm", "d2", "B")], ("scrub", "-p", "full"))]
    # ... and with a file that got SHORTER since the sync (reads beyond its end fail without any system call)
    sc += [("scrub-shorter-fileerror", Config(levels=1, ndisks=2), base + adds + [("cmd", "sync"), ("write", "d1", "N", 2000, 1)], ("scrub", "-p", "full"))]
    # pre-hash: every new block is read twice, the first pass is its own phase with its own error accounting
    sc += [("sync-adds-prehash", Config(levels=1, ndisks=2), base + adds, ("sync", "-h"))]
    sc += [("sync-adds-rehash", Config(levels=1, ndisks=2), base + [("cmd", "rehash")] + adds, ("sync",)),
           ("scrub-rehash", Config(levels=1, ndisks=2), base + adds + [("cmd", "sync"), ("cmd", "rehash")], ("scrub", "-p", "full"))]
    # stripes ALREADY marked bad by an earlier scrub that met an I/O error on the parity (a standing bad sector): the recommended
    # follow-up (scrub -p bad, or the next full scrub) meets the error again
    sc += [("scrub-bad-marked", Config(levels=1, ndisks=2), base + adds + [("cmd", "sync"), ("cmd-eio", "p0/*", 2, "scrub", "-p", "full")],
            ("scrub", "-p", "bad")),
           ("scrub-bad-marked", Config(levels=2, ndisks=2), base + adds + [("cmd", "sync"), ("cmd-eio", "p1/*", 1, "scrub", "-p", "full"),
                                                                           ("cmd-eio", "d1/N", 0, "scrub", "-p", "full")],
            ("scrub", "-p", "full"))]
    if True:
        sc += [("sync-adds", Config(levels=3, ndisks=3), base + [("write", "d3", "anchor", 700, 0)] + adds, ("sync",)),
               ("scrub", Config(levels=1, ndisks=2), base + adds + [("cmd", "sync")], ("scrub", "-p", "full"))]
    return sc


def caches(tier):
    return [1, 3, 8] if tier == "quick" else [1, 3, 4, 8, 128]


def run_cmd(L, cmd, cache, env=None):
    opts = ["--test-io-cache", str(cache), "--test-skip-multi-scan"]
    return L.run(cmd[0], *(list(cmd[1:]) + opts), det=False, env=env)


def stripe_of(L, c, e):
    """stripe position hit by traced call e"""
    rel = os.path.relpath(e.path, L.root)
    top, _, rest = rel.partition("/")
    bs = c.block_size
    if top in L.cfg.disknames:
        d = c.disks.get(top.encode())
        if d is None:
            return None
        for f in d.files:
            if f.sub.decode(errors="surrogateescape") == rest:
                i = e.off // bs
                if i < len(f.blocks):
                    return f.blocks[i][1]
        return None
    # parity: through the recorded split sizes
    lvl = int(top[1:])
    off = e.off
    p = c.parity.get(lvl)
    if p is not None and p["splits"] is not None:
        paths = L.parity_paths(lvl)
        idx = paths.index(e.path)
        off += sum(s[2] for s in p["splits"][:idx])
    return off // bs


def stripe_recorded_healthy(c, pos):
    tab = c.stripe_table().get(pos, {})
    states = [x[0] for ents in tab.values() for x in ents]
    if not states:
        return False
    info = c.info[pos] if pos < len(c.info) else None
    return all(s == C.BLK for s in states) and info is not None and not info[1]


def other_stripes_view(c, skip):
    out = {}
    for pos, per in c.stripe_table().items():
        if pos in skip:
            continue
        out[pos] = (tuple(sorted((d, tuple((e[0], e[3]) for e in ents)) for d, ents in per.items())),
                    None if c.info[pos] is None else (c.info[pos][1], c.info[pos][2]))
    return out


def fault_job(j):
    cfg, saved, cmd, cache, faults, clean_view, nstripes_order, seed = j
    clean_rc = 0
    if clean_view is not None:
        clean_view = dict(clean_view)
        clean_rc = clean_view.pop("__clean_rc__", 0)
        if not clean_view:
            clean_view = None        # pairs: only the exit status of the fault-free run travels along
    L = X.materialize(cfg, saved, seed)
    c0 = L.content()
    rule = ";".join("%s:%s:%d:%d" % (path, call, n, err) for (path, call, n, err, pos) in faults)
    rule = rule.replace("{root}", L.root)
    res = run_cmd(L, cmd, cache, env={"VP_FAIL": rule})
    where = "%s cache=%d fail=%s" % (" ".join(cmd), cache, [(f[0].replace("{root}/", ""), f[1], f[2], f[3]) for f in faults])
    v = []
    injected = [e for e in res.trace if e.err in (EIO, ENOSPC) and e.ret == -1 and e.call in ("pread", "pwrite")]
    shorts = [e for e in res.trace if e.err == SHORT and e.call == "pread"]
    if len(injected) < len(faults):
        # the run stopped before reaching a later fault: judge only what was injected
        pass
    if all(f[3] == SHORT for f in faults):
        # a short read is an ordinary answer of the OS: the command must go on reading and end exactly like the fault-free run
        if not shorts:
            return dict(viols=[dict(kind="harness-fault-not-injected", where=where)], harness=True)
        if res.rc != clean_rc or (clean_rc == 0 and (res.tags.get("error") or res.tags.get("parity_error"))):
            v.append(dict(kind="short-read-not-transparent", where=where, rc=res.rc, out=res.text()[-300:]))
        else:
            c1 = L.content()
            if clean_view is not None and other_stripes_view(c1, set()) != clean_view:
                v.append(dict(kind="short-read-changes-the-result", where=where))
            for o in X.c06(L, where):
                o["kind"] = "short-read-c06-" + o["kind"]
                v.append(o)
        return dict(viols=v, harness=False, rc=res.rc, tail=None, write=False)
    if not injected:
        if shorts and len(faults) > 1:
            # the continuation of the short read was never issued (the short part already completed the block: last partial block)
            return dict(viols=[], harness=False, rc=res.rc, tail=None, write=False, skipped=True)
        return dict(viols=[dict(kind="harness-fault-not-injected", where=where)], harness=True)
    try:
        c1 = L.content()
    except C.ContentError as ex:
        return dict(viols=[dict(kind="content-undecodable-after-io-error", where=where, err=str(ex))], harness=False, rc=res.rc)
    hit = set()
    for (path, call, n, err, pos) in faults:
        if pos is not None:
            hit.add(pos)
    diag = bool(res.tags.get("error") or res.tags.get("parity_error") or "DANGER" in res.text() or "WARNING" in res.text())
    is_write = any(f[1] == "pwrite" for f in faults)
    if res.rc == 0:
        v.append(dict(kind="exit-0-after-io-error", where=where, write=is_write))
    if not diag:
        v.append(dict(kind="no-diagnostic", where=where, write=is_write))
    for pos in sorted(hit):
        if stripe_recorded_healthy(c1, pos):
            v.append(dict(kind="stripe-recorded-synced-and-healthy", where=where, pos=pos, write=is_write))
    for o in X.c06(L, where):
        o["kind"] = "c06-" + o["kind"]
        o["write"] = is_write
        v.append(o)
    only_eio = all(f[3] in (EIO, SHORT) for f in faults)
    # (with pre-hash an error in the hashing pass stops the sync before any parity is touched - by design nothing else is processed)
    if only_eio and res.rc != 0 and clean_view is not None and "-h" not in cmd:
        mine = other_stripes_view(c1, hit)
        want = {k: x for k, x in clean_view.items() if k not in hit}
        if mine != want:
            diffpos = sorted(p for p in set(mine) | set(want) if mine.get(p) != want.get(p))
            v.append(dict(kind="other-stripes-not-processed-normally", where=where, stripes=diffpos[:6], write=is_write))
    # repair path (not judged when the array has a standing file error of its own: the fault-free run fails there too)
    if clean_rc != 0:
        return dict(viols=v, harness=False, rc=res.rc, tail=None, write=is_write)
    if cmd[0] == "sync":
        r2 = L.run("sync")
        if r2.rc != 0:
            v.append(dict(kind="next-sync-fails", where=where, rc=r2.rc, out=r2.text()[-300:], write=is_write))
    else:
        r2 = L.run("fix", "-e")
        r3 = L.run("scrub", "-p", "bad")
        if r2.rc != 0 or r3.rc != 0:
            v.append(dict(kind="fix-e-scrub-bad-fails", where=where, rc=(r2.rc, r3.rc), write=is_write))
    c2 = L.content()
    if any(i is not None and i[1] for i in c2.info):
        # "fix -e or the next sync repairs it": a stripe that is bad but fully synced is not touched by a plain sync;
        # the other documented path must then clear it
        r2 = L.run("fix", "-e")
        r3 = L.run("scrub", "-p", "bad")
        c2 = L.content()
        if r2.rc != 0 or r3.rc != 0 or any(i is not None and i[1] for i in c2.info):
            v.append(dict(kind="bad-marks-remain-after-repair", where=where, write=is_write, rc=(r2.rc, r3.rc)))
    for o in X.c06(L, where + " +repair"):
        o["kind"] = "after-repair-c06-" + o["kind"]
        o["write"] = is_write
        v.append(o)
    tail = None
    if hit and nstripes_order:
        # is the (first) hit stripe among the last `cache` processed stripes?
        idx = [nstripes_order.index(p) for p in hit if p in nstripes_order]
        if idx:
            tail = (len(nstripes_order) - 1 - max(idx)) < max(cache, 1)
    return dict(viols=v, harness=False, rc=res.rc, tail=tail, write=is_write)


def classify(v, cache, tail):
    """map a violation to its structural key; the three recorded parity-write defects get their own keys"""
    k = v["kind"]
    if v.get("write"):
        if cache == 1 and k in ("exit-0-after-io-error", "no-diagnostic"):
            return "C08/parity-write-error/mono-ignored"
        if cache > 1 and tail and k in ("exit-0-after-io-error",):
            return "C08/parity-write-error/tail-not-collected"
        if k in ("stripe-recorded-synced-and-healthy", "c06-parity-mismatch", "c06-parity-too-small",
                 "after-repair-c06-parity-mismatch", "after-repair-c06-parity-too-small"):
            return "C08/parity-write-error/not-marked-bad"
        return "C08/write/" + k
    return "C08/read/" + k


def run(ctx):
    tier = ctx.tier
    ctx.set("rule", "per scenario x io-cache depth: every pread on every data and parity file and every pwrite on every parity "
                    "file listed by a fault-free traced run is failed once (EIO; ENOSPC too for writes); thorough adds all "
                    "pairs of EIO faults on different files. non-trivial = the fault was injected (seen in the trace)")
    evals = 0
    for name, cfg, ops, cmd in scenarios(tier):
        for cache in caches(tier):
            if ctx.out_of_time():
                ctx.cap("deadline before %s cache %d" % (name, cache))
                break
            label = "%s/%s/cache%d" % (name, cfg.short(), cache)
            with labmod.Lab(cfg, seed=ctx.seed) as L0:
                for op in ops:
                    r = X.apply_op(L0, op)
                    if r is not None and r.rc != 0 and op[0] != "cmd-eio":
                        raise RuntimeError("base failed %r\n%s" % (op, r.text()))
                saved = L0.save()
                if name == "scrub-bad-marked" and not any(i is not None and i[1] for i in L0.content().info):
                    # the preparing scrub met an injected EIO and marked nothing: that IS the property failing (not a harness problem)
                    ctx.violation("C08/read/preparing-scrub-left-no-bad-mark", "scrub with an injected read error marked no stripe bad (%s)" % label,
                                  dict(scenario=name, cfg=cfg.describe(), ops=ops, cmd=cmd, cache=cache, faults=[], violation=dict(kind="no-bad-mark-after-eio")))
                    continue
                r = run_cmd(L0, cmd, cache, env={"VP_TRACE_READS": "1"})
                if r.rc != 0 and not name.endswith("-fileerror"):
                    raise RuntimeError("reference run failed\n" + r.text())
                c_after = L0.content()
                clean_view = other_stripes_view(c_after, set())
                clean_view["__clean_rc__"] = r.rc
                L0.restore(saved)
                c_before = L0.content()
                # per file call lists
                per = {}
                order = []
                for e in r.trace:
                    if e.call not in ("pread", "pwrite"):
                        continue
                    rel = os.path.relpath(e.path, L0.root)
                    top = rel.split("/", 1)[0]
                    if not (top in cfg.disknames or (top.startswith("p") and top[1:].isdigit())):
                        continue
                    if e.call == "pwrite" and top in cfg.disknames:
                        continue
                    key = (rel, e.call)
                    n = per.setdefault(key, [])
                    # positions are computed against the content AFTER the run for files that were pending before
                    pos = stripe_of(L0, c_after, e)
                    n.append(pos)
                    if top == "p0" and pos is not None and pos not in order:
                        order.append(pos)
            singles = []
            for (rel, call), poss in sorted(per.items()):
                for n, pos in enumerate(poss):
                    singles.append(("{root}/" + rel, call, n, EIO, pos))
                    if call == "pwrite":
                        singles.append(("{root}/" + rel, call, n, ENOSPC, pos))
            jobs = [(cfg, saved, cmd, cache, (f,), clean_view, order, ctx.seed) for f in singles]
            # environment answer "short read" on every pread: alone (must be transparent), and followed by EIO on the continuation
            for f in singles:
                if f[1] == "pread" and f[3] == EIO and (cache in (1, 3)):
                    sh = (f[0], f[1], f[2], SHORT, f[4])
                    jobs.append((cfg, saved, cmd, cache, (sh,), clean_view, order, ctx.seed))
                    jobs.append((cfg, saved, cmd, cache, (sh, (f[0], f[1], f[2] + 1, EIO, f[4])), clean_view, order, ctx.seed))
            if tier == "thorough" and cache in (1, 4):
                eios = [f for f in singles if f[3] == EIO]
                for a, b in itertools.combinations(eios, 2):
                    if a[0] != b[0] and a[4] != b[4]:
                        jobs.append((cfg, saved, cmd, cache, (a, b), {"__clean_rc__": clean_view["__clean_rc__"]}, order, ctx.seed))
            done = 0
            for j, r in par.pmap(fault_job, jobs, deadline=ctx.deadline, chunksize=2):
                done += 1
                evals += 1
                if r["harness"]:
                    raise RuntimeError("harness problem %r" % r["viols"])
                ctx.nontrivial((label, j[4]))
                ctx.outcome((name, cache, "write" if r["write"] else "read", r["rc"]))
                for v in r["viols"]:
                    ctx.violation(classify(v, cache, r["tail"]), "%s: %s (%s)" % (v["kind"], v["where"], label),
                                  dict(scenario=name, cfg=cfg.describe(), ops=ops, cmd=cmd, cache=cache, faults=j[4], violation=v))
                if done in (3, 50):
                    ctx.sample(dict(scenario=label, fault=[(f[0], f[1], f[2], f[3]) for f in j[4]]))
            if done < len(jobs):
                ctx.cap("%s: deadline (%d of %d fault cases)" % (label, done, len(jobs)))
            ctx.set("faults[%s]" % label, done)
    ctx.set("evaluations", evals)
    ctx.assumptions += ["per-file call numbering is schedule independent because each file has exactly one worker thread",
                        "threaded depths run free (not under the cooperative scheduler); only the parity-write tail case is schedule dependent and it is a recorded finding"]


def replay(r):
    cfg = Config.from_dict(r["cfg"])
    with labmod.Lab(cfg) as L0:
        for op in r["ops"]:
            X.apply_op(L0, tuple(op))
        saved = L0.save()
    if r.get("violation", {}).get("kind") == "no-bad-mark-after-eio":
        with labmod.Lab(cfg) as L0:
            for op in r["ops"]:
                X.apply_op(L0, tuple(op))
            ok = any(i is not None and i[1] for i in L0.content().info)
        print("   bad mark after the preparing scrub:", ok)
        return ok
    faults = tuple(tuple(f) for f in r["faults"])
    out = fault_job((cfg, saved, tuple(r["cmd"]), r["cache"], faults, None, [], 0))
    for v in out["viols"]:
        print("  ", v)
    return not out["viols"]
