"""C12  Commands modify only what they are documented to modify  (arraymc sweep + monitor).

Every command x option menu is executed on four array conditions (healthy, unsynced, damaged, partially lost) in
several configurations; the before/after snapshot of the whole lab AND the syscall trace of state-changing calls
are judged by the permission matrix of vp/perm.py.
"""
import os
from vp import lab as labmod, explore as X, faults as F, content as C, par, perm
from vp.lab import Config

LEVEL = "model_checking"
BUDGET = {"quick": 200, "thorough": 1500}

MENU = [
    ("status",), ("status", "-v"), ("diff",), ("list",), ("dup",), ("devices",),
    ("check",), ("check", "-a"), ("check", "-f", "a"), ("check", "-d", "d1"), ("check", "-m"), ("check", "-e"),
    ("check", "-a", "-f", "b*"), ("check", "-i", "{root}/d2"),
    ("scrub",), ("scrub", "-p", "full"), ("scrub", "-p", "new"), ("scrub", "-p", "bad"), ("scrub", "-p", "50", "-o", "0"),
    ("sync",), ("sync", "-F"), ("sync", "-R"), ("sync", "-h"), ("sync", "-N"), ("sync", "-B", "1"), ("sync", "-E"),
    ("sync", "--force-zero"), ("sync", "-E", "--force-zero", "-U", "-D"),
    ("fix",), ("fix", "-f", "a"), ("fix", "-d", "d1"), ("fix", "-m"), ("fix", "-e"), ("fix", "-d", "parity"),
    ("fix", "-i", "{root}/d2"), ("fix", "-U", "-D"),
    ("pool",), ("touch",), ("rehash",),
    ("fix", "-S", "0", "-B", "1"), ("fix", "-S", "0", "-B", "2"), ("fix", "-S", "0", "-B", "3"), ("fix", "-S", "0", "-B", "4"),
    ("fix", "-S", "0", "-B", "5"), ("fix", "-S", "0", "-B", "6"), ("fix", "-S", "2", "-B", "2"), ("fix", "-S", "3", "-B", "3"),
    ("check", "-S", "1", "-B", "2"), ("fix", "-B", "2", "-f", "a"), ("fix", "-B", "3", "-m"),
    ("fix", "-b"), ("check", "-b"), ("fix", "-e", "-f", "a"), ("fix", "-b", "-d", "d2"),
    # environment answers: the file system cannot time-stamp symbolic links (ENOTSUP) / cannot create them (EPERM)
    ("pool", "@nolinktime"), ("pool", "@nosymlink"),
]
THREADED = [("sync",), ("scrub", "-p", "full"), ("fix",), ("check",)]


def configs(tier):
    cs = [Config(levels=1, ndisks=2, pool=True, contents=["c0/content", "d1/.content"]),
          Config(levels=2, ndisks=3, pool=True, splits={0: 2, 1: 2}, parity_limit=6144, hashsize=8, uuid=True)]
    if tier == "thorough":
        cs += [Config(levels=3, z=True, ndisks=2, pool=True), Config(levels=6, ndisks=2, pool=True, contents=["c0/content", "c1/content", "c2/content"])]
    return cs


def base_ops(cfg):
    ops = [("write", d, "anchor", 700, 0) for d in cfg.disknames]
    ops += [("write", "d1", "a", 2500, 0), ("write", "d1", "b", 1025, 0), ("write", "d1", "dir/t0", 300, 0, 0),
            ("symlink", "d1", "ln", "a"), ("hardlink", "d1", "hl", "a"), ("mkdir", "d1", "ed"),
            ("write", "d2", "c", 1000, 0), ("write", "d2", "a", 2500, 0), ("write", "d2", "z0", 0, 0)]
    ops.append(("cmd", "sync"))
    return ops


def conditions(cfg):
    """name -> list of ops/damages applied to the healthy base"""
    return {
        "healthy": [],
        "unsynced": [("write", "d1", "n", 1500, 0), ("rm", "d1", "b"), ("write", "d2", "c", 1200, 1), ("mv", "d2", "a", "d2", "a2"),
                     ("write", "d2", "z0", 0, 1), ("write", "d1", "t1", 200, 0, 0),
                     # a file recorded with a zero sub-second stamp, rewritten since (other seconds, again zero sub-second)
                     ("write", "d1", "dir/t0", 300, 1, 0)],
        # a synced multi-block file rewritten by the user since (same length, other bytes and time): a range-limited or selective fix
        # that meets only its first blocks has no business with it
        "rewritten-multiblock": [("write", "d1", "a", 2500, 1)],
        # ... and the same for a file that an earlier scrub had marked bad
        "bad-then-rewritten": [("dmg-data", "d1", "a"), ("cmd", "scrub", "-p", "full"), ("write", "d1", "a", 2500, 1)],
        "damaged": [("dmg-data", "d1", "a"), ("rm", "d2", "c"), ("dmg-parity", 0), ("rm", "d1", "ln"), ("rmdir", "d1", "ed")],
        "partial-loss": [("emptydisk", "d1")],
        # some files of each disk missing, the others intact (a partial fix must not touch the intact ones)
        "some-missing": [("rm", "d1", "a"), ("rm", "d1", "dir/t0"), ("rm", "d2", "c"), ("rm", "d1", "ln"), ("rmdir", "d1", "ed")],
        # an earlier scrub recorded bad blocks; the files they belong to got lost afterwards (-e / -b selections)
        "bad-then-missing": [("dmg-data", "d1", "a"), ("dmg-data", "d2", "c"), ("cmd", "scrub", "-p", "full"), ("rm", "d1", "a"), ("rm", "d2", "c")],
        # recorded entries whose KIND changed on disk: an empty file became a symbolic link to a recorded non-empty file (and one to
        # nowhere), a symbolic link became a file, an empty directory became a file
        "empty-file-became-link": [("rm", "d2", "z0"), ("symlink", "d2", "z0", "a")],
        "link-became-file": [("rm", "d1", "ln"), ("write", "d1", "ln", 50, 0)],
        "emptydir-became-file": [("rmdir", "d1", "ed"), ("write", "d1", "ed", 60, 0)],
        "file-became-dir": [("rm", "d1", "b"), ("write", "d1", "b/inside", 70, 0)],
        "empty-file-dangling-link": [("rm", "d2", "z0"), ("symlink", "d2", "z0", "nowhere/new")],
        "partial-loss-parity": [("lose-parity", 0), ("write", "d2", "n2", 800, 0)],
        "interrupted": [("write", "d1", "n", 1500, 0), ("cmd", "sync", "--test-kill-after-sync"), ("rm", "d2", "c")],
    }


def apply_cond(L, ops):
    for op in ops:
        if op[0] == "dmg-data":
            c = L.content()
            f = next(x for x in c.disks[op[1].encode()].files if x.sub == op[2].encode())
            F.damage_data_block(L, c, op[1], f.blocks[0][1], "whole")
        elif op[0] == "dmg-parity":
            c = L.content()
            F.damage_parity_block(L, c, op[1], 0, "whole")
        elif op[0] == "lose-parity":
            F.lose_parity(L, op[1])
        else:
            X.apply_op(L, op)


def job(j):
    cfg, saved, cname, cond, cmd, threaded, seed = j
    L = X.materialize(cfg, saved, seed)
    apply_cond(L, cond)
    try:
        c = L.content()
        zero = perm.recorded_zero_nsec(c)
    except (FileNotFoundError, C.ContentError):
        c, zero = None, set()
    env = None
    if "@nolinktime" in cmd:
        env = {"VP_FAIL": "%s/pool/*:lutime:0+:95" % L.root}
    elif "@nosymlink" in cmd:
        env = {"VP_FAIL": "%s/pool/*:symlink:0+:1" % L.root}
    res = L.run(cmd[0], *[a for a in cmd[1:] if not str(a).startswith("@")], det=not threaded, env=env)
    v = perm.violations(L, cmd[0], res, c, zero)
    ntouched = len(perm.touched_paths(L, res))
    return dict(viols=v, rc=res.rc, ntouched=ntouched, signal=res.signal)


def run(ctx):
    tier = ctx.tier
    ctx.set("rule", "every command x option combination of a %d-entry menu (+ threaded variants) on every array condition "
                    "(healthy, unsynced, damaged, disk lost, parity lost, interrupted sync) per configuration; the snapshot "
                    "bracket and the syscall trace must both respect the permission matrix. non-trivial = the command touched "
                    ">=1 path or is a read-only command run on a non-healthy array" % len(MENU))
    evals = 0
    for cfg in configs(tier):
        if ctx.out_of_time():
            ctx.cap("deadline before " + cfg.short())
            break
        with labmod.Lab(cfg, seed=ctx.seed) as L0:
            for op in base_ops(cfg):
                r = X.apply_op(L0, op)
                if r is not None and r.rc != 0:
                    raise RuntimeError("base failed\n" + r.text())
            saved = L0.save()
        jobs = []
        for cname, cond in conditions(cfg).items():
            for cmd in MENU:
                jobs.append((cfg, saved, cname, cond, cmd, False, ctx.seed))
            for cmd in THREADED:
                jobs.append((cfg, saved, cname, cond, cmd, True, ctx.seed))
        done = 0
        for j, r in par.pmap(job, jobs, deadline=ctx.deadline):
            done += 1
            evals += 1
            cname, cmd = j[2], j[4]
            ctx.outcome((cmd[0], cname, r["rc"]))
            if r["ntouched"] or cname != "healthy":
                ctx.nontrivial((cfg.short(), cname, cmd, j[5]))
            if r["signal"] is not None:
                ctx.violation("C12/%s/crash-signal-%d" % (cmd[0], r["signal"]), "command died with a signal",
                              dict(cfg=cfg.describe(), condition=cname, cmd=cmd, threaded=j[5]))
            for v in r["viols"]:
                ctx.violation("C12/%s/%s" % (cmd[0], v["kind"]), "%s: %s on %s array (%s): %r" % (
                    v["kind"], " ".join(cmd), cname, cfg.short(), {k: x for k, x in v.items() if k != "kind"}),
                    dict(cfg=cfg.describe(), condition=cname, cmd=cmd, threaded=j[5], violation=v))
            if done in (10, 120):
                ctx.sample(dict(cfg=cfg.short(), condition=cname, command=cmd, threaded=j[5], touched=r["ntouched"]))
        if done < len(jobs):
            ctx.cap("%s: deadline (%d of %d runs)" % (cfg.short(), done, len(jobs)))
        ctx.set("runs[%s]" % cfg.short(), done)
    ctx.set("evaluations", evals)
    ctx.set("states", evals)
    ctx.set("transitions", evals)
    ctx.set("traces_validated_against_impl", evals)
    ctx.assumptions += ["'time-stamps that were zero' is read as the recorded sub-second part being zero (what touch keys on)",
                        "an open(O_CREAT) of an existing file that leaves it unchanged is not a modification (snapshot decides)"]


def replay(r):
    cfg = Config.from_dict(r["cfg"])
    with labmod.Lab(cfg) as L0:
        for op in base_ops(cfg):
            X.apply_op(L0, op)
        saved = L0.save()
    out = job((cfg, saved, r["condition"], conditions(cfg)[r["condition"]], tuple(r["cmd"]), r["threaded"], 0))
    for v in out["viols"]:
        print("  ", v)
    return not out["viols"] and out["signal"] is None
