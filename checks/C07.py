"""C07  Interrupted sync and fix are safe and resumable  (crashmc: every kill point x mode, every SIGINT stripe).

For each scenario the command under test is run once with tracing to number its state-changing system calls;
then for EVERY index k and each of {kill before, kill after, torn write} the command is re-run from a fresh copy
of the pre-state and killed there (libvp), and the crash state is judged by the oracles below.
"""
import os
from vp import lab as labmod, explore as X, faults as F, content as C, par, crash
from vp.lab import Config

LEVEL = "fault_enumeration"
BUDGET = {"quick": 280, "thorough": 2400}


def scenarios(tier):
    base = [("write", "d1", "anchor", 700, 0), ("write", "d2", "anchor", 700, 0), ("write", "d1", "A", 1000, 0),
            ("write", "d1", "A2", 2500, 0), ("write", "d2", "K", 1025, 0), ("symlink", "d2", "ln", "K"), ("mkdir", "d1", "ed"),
            ("cmd", "sync")]
    adds = [("write", "d2", "B", 1900, 0), ("write", "d1", "N", 1025, 0), ("write", "d2", "sub/M", 3000, 0)]
    mixed = [("rm", "d1", "A2"), ("write", "d1", "A", 1800, 1), ("write", "d2", "B", 1900, 0), ("mv", "d2", "K", "d2", "K2"),
             ("rm", "d2", "ln"), ("mkdir", "d2", "newdir")]
    sc = [("adds", Config(levels=1, ndisks=2), base, adds, True, ()),
          ("adds", Config(levels=2, ndisks=2, contents=["c0/content", "c1/content", "d1/.content"]), base, adds, True, ()),
          ("mixed", Config(levels=2, ndisks=2, uuid=True), base, mixed, False, ()),
          ("mixed", Config(levels=1, ndisks=2, contents=["c0/content", "c1/content"]), base, mixed, False, ()),
          # a hash migration is pending while the sync is interrupted
          ("adds-rehash", Config(levels=2, ndisks=2), base + [("cmd", "rehash")], adds, True, ())]
    sc += [("adds-autosave", Config(levels=2, ndisks=2), base, adds, True, ("--test-force-autosave-at", "3")),
           ("mixed-prehash", Config(levels=1, ndisks=2), base, mixed, False, ("-h",)),
           ("adds-prehash", Config(levels=2, ndisks=2), base, adds, True, ("-h",)),
           ("adds-hash8", Config(levels=2, ndisks=2, hashkind="spooky2", hashsize=8), base, adds, True, ())]
    # format-3 content (split parity) and a sync that does not change the parity size: the content saved before the parity update
    # is then the only thing that tells an interrupted sync from a completed one; with and without --force-empty
    nogrow = [("write", "d2", "B", 1900, 0)]
    split = Config(levels=1, ndisks=2, splits={0: 2}, parity_limit=6144, contents=["c0/content", "c1/content"])
    sc += [("adds-nogrow-split", split, base, nogrow, True, ()), ("adds-nogrow-split-E", split, base, nogrow, True, ("-E",))]
    # ... and the only pending change is a file taken for a COPY of a file of the other disk (hashes inherited, blocks recorded as such)
    sc += [("copy-nogrow-split", split, base, [("cp", "d1", "A", "d2", "A")], True, ())]
    if tier == "thorough":
        sc += [("adds", Config(levels=3, ndisks=2, splits={0: 2, 1: 2, 2: 2}, parity_limit=4096), base, adds, True, ()),
               ("mixed", Config(levels=6, ndisks=2), base, mixed, False, ()),
               ("mixed-autosave", Config(levels=1, ndisks=2, contents=["c0/content", "c1/content", "c2/content"]), base, mixed, False, ("--test-force-autosave-at", "2")),
               ("adds", Config(levels=2, ndisks=2, hashkind="spooky2", hashsize=8), base, adds, True, ("-h",))]
    return sc


LOADERS = [("status",), ("list",), ("diff",), ("check", "-a")]
CONTENT_ERRORS = ("content file is damaged", "This content file is", "CRC mismatch", "Invalid header", "Internal inconsistency",
                  "Decoding error", "No content file found", "Error reading the content", "Error reading the CRC")


def loads_content(L, where):
    v = []
    for cmd in LOADERS:
        r = L.run(cmd[0], *cmd[1:], bracket=False)
        txt = r.text()
        if r.signal is not None or any(m in txt for m in CONTENT_ERRORS) or r.rc not in (0, 1, 2):
            v.append(dict(kind="content-not-loadable", where=where, cmd=cmd, rc=r.rc, out=txt[-300:]))
            break
    return v


def excluded(cfg):
    out = set()
    for cpath in cfg.contents:
        top, _, rest = cpath.partition("/")
        if top in cfg.disknames:
            for suf in ("", ".lock", ".tmp"):
                out.add((top, rest + suf))
    return out


def synced_files(c):
    """(disk, sub) of files all of whose blocks are BLK, plus links and dirs"""
    out = set()
    for d in c.disks.values():
        for f in d.files:
            if all(st == C.BLK for st, _, _ in f.blocks):
                out.add((d.name.decode(), f.sub.decode(errors="surrogateescape")))
    return out


def device_sets(cfg, maxn):
    devs = [("disk", d) for d in cfg.disknames] + [("parity", l) for l in range(cfg.levels)]
    return list(F.subsets(devs, maxn))


def crash_oracle(L, cfg, pre_tree, pre_content, adds_only, graceful, where, call=None, mode=None):
    """judge the on-disk state left by an interrupted sync. L holds the crash state."""
    v = []
    excl = excluded(cfg)
    # (1) no data file modified
    diffs = [x for x in X.tree_equal(L, pre_tree, allow_extra=lambda d, p: (d, p) in excl) if (x[0], x[1]) not in excl]
    for x in diffs[:3]:
        v.append(dict(kind="data-modified-by-interrupted-sync", where=where, detail=repr(x)))
    # (2) every command loads a content file
    v += loads_content(L, where)
    # (5) C06 on the crash state
    for o in X.c06(L, where):
        o["kind"] = "crash-state-" + o["kind"]
        v.append(o)
    S = L.save()
    # (4) adds only: everything synced before stays recoverable meanwhile
    if adds_only:
        was_synced = synced_files(pre_content)
        for s in device_sets(cfg, cfg.levels if graceful else 1):
            L.restore(S)
            for dev in s:
                F.apply_device_fault(L, dev, "lost")
            r = L.run("fix", bracket=False)
            now = X.data_tree(L)
            bad = []
            for (d, sub) in sorted(was_synced):
                a, b = pre_tree[d].get(sub), now[d].get(sub)
                if b is None or a[3] != b[3]:
                    bad.append("%s/%s" % (d, sub))
            if bad:
                # structural signature of a recorded limitation: the crash state's record holds blocks of a file taken for a COPY
                # (hash inherited, no marker left to say that the position was empty before) in a stripe of every file lost here
                rep_shared = False
                try:
                    L.restore(S)
                    cc_ = L.content()
                    rep_pos = {pos for dd in cc_.disks.values() for f in dd.files for st, pos, h in f.blocks if st == C.REP}
                    per_file = []
                    for rel in bad:
                        dn, sub = rel.split("/", 1)
                        f0 = next((f for f in pre_content.disks[dn.encode()].files if f.sub.decode(errors="surrogateescape") == sub), None)
                        per_file.append(f0 is not None and any(pos in rep_pos for st, pos, h in f0.blocks))
                    rep_shared = bool(rep_pos) and all(per_file)
                except (FileNotFoundError, C.ContentError, KeyError):
                    pass
                v.append(dict(kind="synced-file-unrecoverable-meanwhile", where=where, lost=s, files=bad[:4],
                              fix_rc=r.rc, copy_block_in_every_lost_stripe=rep_shared))
    # (3) sync again completes and re-establishes C01
    L.restore(S)
    r = L.run("sync")
    if r.rc != 0:
        v.append(dict(kind="resync-failed", where=where, rc=r.rc, out=r.text()[-400:]))
        return v
    want = X.data_tree(L)
    for o in X.c06(L, where):
        o["kind"] = "after-resync-" + o["kind"]
        v.append(o)
    S2 = L.save()
    sets = [s for s in device_sets(cfg, 1)]
    if cfg.levels >= 2:
        sets.append((("disk", cfg.disknames[0]), ("parity", 0)))
    for s in sets:
        L.restore(S2)
        for dev in s:
            F.apply_device_fault(L, dev, "lost")
        r = L.run("fix", bracket=False)
        d2 = [x for x in X.tree_equal(L, want, allow_extra=lambda d, p: (d, p) in excl) if (x[0], x[1]) not in excl]
        if r.rc != 0 or d2:
            v.append(dict(kind="not-recoverable-after-resync", where=where, lost=s, rc=r.rc, diffs=[repr(x) for x in d2[:3]]))
    return v


def kill_job(j):
    cfg, saved, args, k, mode, ref, adds_only, seed = j
    L = X.materialize(cfg, saved, seed)
    pre_tree = X.data_tree(L)
    pre_content = L.content()
    res = crash.run_killed(L, "sync", args, k, mode)
    where = "sync %s killed %s call %d (%s %s)" % (" ".join(args), mode, k, ref[k][0], ref[k][1])
    if res.signal != 9:
        return dict(viols=[dict(kind="harness-kill-not-reached", where=where, rc=res.rc)], harness=True)
    got = [(e.call, os.path.relpath(e.path, L.root)) for e in crash.sc_calls(res.trace)][:k]
    if got != [tuple(x) for x in ref[:k]]:
        return dict(viols=[dict(kind="harness-replay-diverged", where=where, got=got[-3:], want=ref[max(0, k - 3):k])], harness=True)
    v = crash_oracle(L, cfg, pre_tree, pre_content, adds_only, False, where, ref[k], mode)
    return dict(viols=v, harness=False, call=ref[k], mode=mode)


def sigint_job(j):
    cfg, saved, args, n, adds_only, seed = j
    # n: index of the parity write of level 0 before which SIGINT arrives, or (level, index, signal number): the tool promises the
    # same graceful stop for INT, TERM, HUP and QUIT; a signal before a write of the LAST level arrives between the level writes of a stripe
    lvl, idx, signo = (0, n, 2) if isinstance(n, int) else tuple(n)
    L = X.materialize(cfg, saved, seed)
    pre_tree = X.data_tree(L)
    pre_content = L.content()
    res = L.run("sync", *args, env={"VP_SIGINT": "*/p%d/*:pwrite:%d" % (lvl, idx), "VP_SIGNO": str(signo)})
    where = "sync %s signal %d before write %d of parity level %d" % (" ".join(args), signo, idx, lvl)
    v = []
    if res.signal is not None:
        v.append(dict(kind="sigint-not-graceful", where=where, signal=res.signal))
    v += crash_oracle(L, cfg, pre_tree, pre_content, adds_only, True, where)
    return dict(viols=v, harness=False, call=("sigint", n), mode="sigint", rc=res.rc)


def autosave_job(j):
    """threaded sync with an autosave: the parity writer of one level is held just before its n-th write (a slow parity disk) while
    the main thread runs on.  If a content file is saved meanwhile and the process dies then, the saved state must still be true
    (C06 on the crash state); a tool that waits for its writers before saving simply does not save until the writer is released."""
    import subprocess, time as _t
    cfg, saved, at, lvl, n, seed = j
    L = X.materialize(cfg, saved, seed)
    fifo = L.p("log", "pause.fifo")
    if os.path.exists(fifo):
        os.unlink(fifo)
    os.mkfifo(fifo)
    tr = L.p("log", "trace")
    if os.path.exists(tr):
        os.unlink(tr)
    argv = [L.exe] + L.base_opts("sync") + ["--test-io-cache", "8", "--test-force-autosave-at", str(at), "-l", L.p("log", "a.log"), "sync"]
    env = L.env({"VP_PAUSEAT": "%s/p%d/*:pwrite:%d:%s" % (L.root, lvl, n, fifo)}, trace=True)
    p = subprocess.Popen(argv, stdout=subprocess.PIPE, stderr=subprocess.PIPE, env=env, cwd=L.root, stdin=subprocess.DEVNULL)
    where = "threaded sync, autosave at stripe %d, writer of level %d held before its write %d" % (at, lvl, n)
    first = os.path.relpath(L.content_paths()[0], L.root) + ".tmp"
    paused = saved_while_paused = False
    t0 = _t.time()
    while _t.time() - t0 < 2.5 and p.poll() is None:
        try:
            txt = open(tr, "rb").read().decode(errors="replace")
        except FileNotFoundError:
            txt = ""
        lines = txt.split("\n")
        pi = next((i for i, l in enumerate(lines) if "\tPAUSE\t" in l), None)
        if pi is not None:
            paused = True
            # a content save completed AFTER the writer got stuck (the pre-sync save comes before any parity write)
            if any("\trename\t" in l and first in l for l in lines[pi + 1:]):
                saved_while_paused = True
                break
        _t.sleep(0.01)
    v = []
    if saved_while_paused:
        p.kill()
        p.wait()
        for o in X.c06(L, where):
            o["kind"] = "autosaved-state-" + o["kind"]
            v.append(o)
    else:
        # release the writer and let the command finish
        try:
            fd = os.open(fifo, os.O_WRONLY | os.O_NONBLOCK)
            os.write(fd, b"x")
            os.close(fd)
        except OSError:
            pass
        try:
            p.communicate(timeout=60)
        except subprocess.TimeoutExpired:
            p.kill()
            p.wait()
            v.append(dict(kind="sync-hangs-after-writer-released", where=where))
        if p.returncode not in (0, None) and not v:
            v.append(dict(kind="sync-fails-after-writer-released", where=where, rc=p.returncode))
        for o in X.c06(L, where):
            o["kind"] = "after-release-" + o["kind"]
            v.append(o)
    return dict(viols=v, harness=False, call=("autosave", at, lvl, n), mode="autosave", paused=paused, saved_while_paused=saved_while_paused)


def fix_job(j):
    cfg, saved, k, mode, ref, final_tree, seed = j
    L = X.materialize(cfg, saved, seed)
    res = crash.run_killed(L, "fix", (), k, mode)
    where = "fix killed %s call %d (%s %s)" % (mode, k, ref[k][0], ref[k][1])
    if res.signal != 9:
        return dict(viols=[dict(kind="harness-kill-not-reached", where=where, rc=res.rc)], harness=True)
    v = []
    r2 = L.run("fix")
    if r2.rc != 0:
        v.append(dict(kind="second-fix-fails", where=where, rc=r2.rc, out=r2.text()[-300:]))
    # the file being rewritten when the kill hit may keep a wrong mtime
    cut = ref[k][1]
    excl = excluded(cfg)
    ign = set()
    parts = cut.split("/", 1)
    if len(parts) == 2:
        ign.add((parts[0], parts[1]))
    # also the file whose data had been completely written and whose utime was the next call
    for kk in range(max(0, k - 4), min(len(ref), k + 1)):
        p = ref[kk][1].split("/", 1)
        if len(p) == 2:
            ign.add((p[0], p[1]))
    # hard links of such a file share its inode and therefore its time-stamp
    for (d, p) in list(ign):
        e = final_tree.get(d, {}).get(p)
        if e is not None and e[0] == "f":
            for p2, e2 in final_tree[d].items():
                if e2[0] == "f" and e2[4] == e[4]:
                    ign.add((d, p2))
    diffs = [x for x in X.tree_equal(L, final_tree, ignore_mtime=ign, allow_extra=lambda d, p: (d, p) in excl)
             if (x[0], x[1]) not in excl]
    for x in diffs[:3]:
        v.append(dict(kind="rerun-fix-differs-from-uninterrupted", where=where, detail=repr(x)))
    return dict(viols=v, harness=False, call=ref[k], mode=mode)


def call_class(call):
    name, path = call
    top = path.split("/", 1)[0]
    if top.startswith("p") and top[1:].isdigit():
        return "parity-" + name
    if "content" in path:
        return "content-" + name
    return "data-" + name


def run(ctx):
    tier = ctx.tier
    ctx.set("rule", "per scenario (pending adds only / adds+deletes+updates+moves; 1,2 levels (thorough 3,6, split, autosave, "
                    "pre-hash); 1-3 content copies): every state-changing syscall index of sync x {kill before, kill after, torn "
                    "write}; SIGINT at every parity write of level 0; same kill enumeration for fix after a lost disk. "
                    "non-trivial = the process was killed / interrupted at that point and the crash state judged")
    evals = 0
    kills = 0
    for name, cfg, base, pending, adds_only, args in scenarios(tier):
        if ctx.out_of_time():
            ctx.cap("deadline before scenario %s/%s" % (name, cfg.short()))
            break
        label = "%s/%s" % (name, cfg.short())
        with labmod.Lab(cfg, seed=ctx.seed) as L0:
            for op in base + pending:
                r = X.apply_op(L0, op)
                if r is not None and r.rc != 0:
                    raise RuntimeError("base failed: %r\n%s" % (op, r.text()))
            saved = L0.save()
            r = L0.run("sync", *args)
            if r.rc != 0:
                raise RuntimeError("reference sync failed\n" + r.text())
            calls = crash.sc_calls(r.trace)
            ref = [(e.call, os.path.relpath(e.path, L0.root)) for e in calls]
            # determinism guard: a second reference run from the same state gives the same numbering
            L0.restore(saved)
            r2 = L0.run("sync", *args)
            ref2 = [(e.call, os.path.relpath(e.path, L0.root)) for e in crash.sc_calls(r2.trace)]
            if ref != ref2:
                raise RuntimeError("reference call numbering is not deterministic for " + label)
            npw = sum(1 for c in ref if c[0] == "pwrite" and c[1].startswith("p0/"))
        jobs = [("kill", (cfg, saved, args, k, mode, ref, adds_only, ctx.seed)) for k, mode in crash.kill_points(calls)]
        jobs += [("sigint", (cfg, saved, args, n, adds_only, ctx.seed)) for n in range(npw)]
        signals = (15,) if tier == "quick" else (15, 1, 3)
        jobs += [("sigint", (cfg, saved, args, (lvl, n, sg), adds_only, ctx.seed)) for sg in signals
                 for lvl in sorted({0, cfg.levels - 1}) for n in range(npw)]
        if cfg.levels > 1:
            jobs += [("sigint", (cfg, saved, args, (cfg.levels - 1, n, 2), adds_only, ctx.seed)) for n in range(npw)]
        ctx.set("sync_calls[%s]" % label, len(ref))
        done = 0
        for j, r in par.pmap(dispatch, jobs, deadline=ctx.deadline):
            done += 1
            evals += 1
            if r["harness"]:
                raise RuntimeError("harness problem: %r" % r["viols"])
            kills += 1
            cc = call_class(r["call"]) if r["mode"] != "sigint" else "sigint"
            ctx.nontrivial((label, r["call"], r["mode"]))
            ctx.outcome((r["mode"], cc, len(r["viols"])))
            for v in r["viols"]:
                key = "C07/sync/%s/%s/%s" % (r["mode"], cc, v["kind"])
                if cfg.levels == 1 and r["mode"] == "torn" and cc == "parity-pwrite" and v["kind"] in (
                        "synced-file-unrecoverable-meanwhile",):
                    key = "C07/torn-parity-write-single-level"
                elif "-h" in args and r["mode"] == "torn" and cc == "parity-pwrite" and v["kind"] == "synced-file-unrecoverable-meanwhile":
                    key = "C07/torn-parity-write-after-prehash"
                elif name.startswith("copy-") and v["kind"] == "synced-file-unrecoverable-meanwhile" and v.get("copy_block_in_every_lost_stripe") \
                        and cfg.levels == 1 and "-h" not in args:
                    key = "C07/copy-over-empty-position-recorded-before-its-parity"
                ctx.violation(key, "%s: %s in %s" % (v["kind"], v["where"], label),
                              dict(scenario=name, cfg=cfg.describe(), base=base, pending=pending, args=args, job=j[0],
                                   k=j[1][3], mode=r["mode"], adds_only=adds_only, violation=v))
            if done in (5, 40):
                ctx.sample(dict(scenario=label, kind=j[0], call=r["call"], mode=r["mode"]))
        if done < len(jobs):
            ctx.cap("%s: deadline (%d of %d crash points)" % (label, done, len(jobs)))
        ctx.set("crash_points[%s]" % label, done)

    # ---- autosave while parity writers lag behind (threaded I/O)
    for cfg in ([Config(levels=2, ndisks=2)] + ([Config(levels=1, ndisks=2), Config(levels=3, ndisks=3)] if tier == "thorough" else [])):
        if ctx.out_of_time():
            ctx.cap("deadline before the autosave part " + cfg.short())
            break
        label = "autosave-threads/" + cfg.short()
        abase = [("write", d, "anchor", 700, 0) for d in cfg.disknames] + [("cmd", "sync"), ("write", "d1", "N", 8000, 0)]
        with labmod.Lab(cfg, seed=ctx.seed) as L0:
            for op in abase:
                X.apply_op(L0, op)
            saved = L0.save()
        ajobs = [("autosave", (cfg, saved, at, lvl, n, ctx.seed)) for at in range(2, 7) for lvl in range(cfg.levels) for n in range(0, at)]
        npaused = nsaved = 0
        for j, r in par.pmap(dispatch, ajobs, deadline=ctx.deadline):
            evals += 1
            npaused += bool(r["paused"])
            nsaved += bool(r["saved_while_paused"])
            ctx.nontrivial((label, r["call"]))
            ctx.outcome(("autosave", r["paused"], r["saved_while_paused"], len(r["viols"])))
            for v in r["viols"]:
                ctx.violation("C07/autosave-threads/%s" % v["kind"], "%s: %s in %s" % (v["kind"], v["where"], label),
                              dict(scenario="autosave-threads", cfg=cfg.describe(), base=abase, job="autosave", k=list(j[1][2:5]), violation=v))
        ctx.set("autosave_cases[%s]" % label, len(ajobs))
        ctx.set("autosave_writer_held[%s]" % label, npaused)
        ctx.set("autosave_saved_while_writer_held[%s]" % label, nsaved)

    # ---- interrupted fix
    for cfg in ([Config(levels=1, ndisks=2), Config(levels=2, ndisks=2)] + ([Config(levels=3, ndisks=3)] if tier == "thorough" else [])):
        if ctx.out_of_time():
            ctx.cap("deadline before fix scenario " + cfg.short())
            break
        label = "fix/" + cfg.short()
        base = [("write", d, "anchor", 700, 0) for d in cfg.disknames] + [
            ("write", "d1", "A", 1000, 0), ("write", "d1", "dir/A2", 2500, 0), ("write", "d1", "Z", 0, 0),
            ("symlink", "d1", "ln", "A"), ("hardlink", "d1", "hl", "A"), ("mkdir", "d1", "ed/ee"),
            ("write", "d2", "K", 1025, 0), ("cmd", "sync")]
        with labmod.Lab(cfg, seed=ctx.seed) as L0:
            for op in base:
                X.apply_op(L0, op)
            F.lose_disk(L0, "d1")
            saved = L0.save()
            r = L0.run("fix")
            if r.rc != 0:
                raise RuntimeError("reference fix failed\n" + r.text())
            final_tree = X.data_tree(L0)
            calls = crash.sc_calls(r.trace)
            ref = [(e.call, os.path.relpath(e.path, L0.root)) for e in calls]
        jobs = [("fix", (cfg, saved, k, mode, ref, final_tree, ctx.seed)) for k, mode in crash.kill_points(calls)]
        ctx.set("fix_calls[%s]" % cfg.short(), len(ref))
        done = 0
        for j, r in par.pmap(dispatch, jobs, deadline=ctx.deadline):
            done += 1
            evals += 1
            if r["harness"]:
                raise RuntimeError("harness problem: %r" % r["viols"])
            ctx.nontrivial((label, r["call"], r["mode"]))
            ctx.outcome(("fix-" + r["mode"], call_class(r["call"]), len(r["viols"])))
            for v in r["viols"]:
                ctx.violation("C07/fix/%s/%s/%s" % (r["mode"], call_class(r["call"]), v["kind"]),
                              "%s: %s in %s" % (v["kind"], v["where"], label),
                              dict(scenario="fix", cfg=cfg.describe(), base=base, k=j[1][2], mode=r["mode"], violation=v))
        if done < len(jobs):
            ctx.cap("%s: deadline (%d of %d crash points)" % (label, done, len(jobs)))
        ctx.set("crash_points[%s]" % label, done)
    ctx.set("evaluations", evals)
    ctx.assumptions += ["crash model = process death with all completed system calls durable",
                        "single threaded I/O so that call numbering is deterministic (checked by a double reference run and a prefix comparison in every killed run)"]


def dispatch(j):
    kind, args = j
    if kind == "kill":
        return kill_job(args)
    if kind == "sigint":
        return sigint_job(args)
    if kind == "autosave":
        return autosave_job(args)
    return fix_job(args)


def replay_autosave(r):
    cfg = Config.from_dict(r["cfg"])
    with labmod.Lab(cfg) as L0:
        for op in r["base"]:
            X.apply_op(L0, tuple(op))
        saved = L0.save()
    out = autosave_job((cfg, saved, r["k"][0], r["k"][1], r["k"][2], 0))
    for v in out["viols"]:
        print("  ", v)
    return not out["viols"]


def replay(r):
    if r.get("job") == "autosave":
        return replay_autosave(r)
    cfg = Config.from_dict(r["cfg"])
    if r["scenario"] == "fix":
        with labmod.Lab(cfg) as L0:
            for op in r["base"]:
                X.apply_op(L0, tuple(op))
            F.lose_disk(L0, "d1")
            saved = L0.save()
            res = L0.run("fix")
            final_tree = X.data_tree(L0)
            ref = [(e.call, os.path.relpath(e.path, L0.root)) for e in crash.sc_calls(res.trace)]
        out = fix_job((cfg, saved, r["k"], r["mode"], ref, final_tree, 0))
    else:
        with labmod.Lab(cfg) as L0:
            for op in r["base"] + r["pending"]:
                X.apply_op(L0, tuple(op))
            saved = L0.save()
            res = L0.run("sync", *r["args"])
            ref = [(e.call, os.path.relpath(e.path, L0.root)) for e in crash.sc_calls(res.trace)]
        if r["job"] == "sigint":
            out = sigint_job((cfg, saved, tuple(r["args"]), r["k"], r["adds_only"], 0))
        else:
            out = kill_job((cfg, saved, tuple(r["args"]), r["k"], r["mode"], ref, r["adds_only"], 0))
    for v in out["viols"]:
        print("  ", v)
    return not out["viols"]
