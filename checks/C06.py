"""C06  Stripes recorded as synced always have valid parity  (arraymc, explicit-state BFS).

State  = (data trees, content copies, parity files) reached by a history of real commands.
Alphabet = file operations on two/three disks + every sync flavour / scrub / fix / rehash / touch.
Oracle = vp/parity.py evaluated after EVERY transition + "all content copies identical after a
successful state-writing command".
"""
from vp import lab as labmod, explore as X, content as C
from vp.lab import Config

LEVEL = "model_checking"
BUDGET = {"quick": 360, "thorough": 2400}


def configs(tier):
    cs = [Config(levels=1, ndisks=2),
          Config(levels=2, ndisks=3, hashsize=8, hashkind="spooky2", contents=["c0/content", "d1/.content", "c1/content"]),
          Config(levels=3, z=True, ndisks=2, splits={0: 2, 1: 2, 2: 3}, parity_limit=4096, uuid=True),
          Config(levels=2, ndisks=3, tag="hole")]
    if tier == "thorough":
        cs += [Config(levels=6, ndisks=3, hashsize=16, hashkind="spooky2"),
               Config(levels=3, ndisks=4, blocksize=2, contents=["c0/content", "c1/content"]),
               Config(levels=2, ndisks=2, hashsize=4, splits={0: 3, 1: 2}, parity_limit=2048)]
    return cs


def init_ops(cfg):
    ops = []
    for i, d in enumerate(cfg.disknames):
        ops.append(("write", d, "anchor", 700, 0))
    ops.append(("write", "d1", "a", 2500, 0))
    ops.append(("write", "d2", "b", 1025, 0))
    ops.append(("write", "d1", "s", 1, 0))
    if cfg.ndisks >= 3:
        ops.append(("write", "d3", "dir/c", 3000, 0))
    ops.append(("cmd", "sync"))
    if cfg.tag == "hole":
        # d3 is emptied, synced away with -E and dropped from the configuration: d1, d2 keep positions 0, 1;
        # then a new disk d4 is added and takes ... whatever position snapraid assigns
        ops += [("emptydisk", "d2"), ("cmd", "sync", "-E"), ("dropdisk", "d2"), ("write", "d3", "b", 1025, 0),
                ("cmd", "sync")]
    return ops


def variants(cfg, tier):
    """initial states the search starts from (name, extra ops after the clean initial sync)"""
    d2 = "d3" if cfg.tag == "hole" else "d2"
    v = [("synced", [])]
    first = cfg.levels == 1 and not cfg.splits
    if tier == "quick" and not first:
        # quick: the extra initial states on the first configuration only, plus the REP one on the second
        if cfg.hashsize == 8:
            v.append(("copy-partly-synced", [("cp", "d1", "a", d2, "a"), ("cmd", "sync", "-B", "1")]))
        return v
    if cfg.tag != "hole" or tier == "thorough":
        v += [("copy-partly-synced", [("cp", "d1", "a", d2, "a"), ("cmd", "sync", "-B", "1")]),
              ("killed-after-parity", [("write", "d1", "n", 1025, 0), ("cmd", "sync", "--test-kill-after-sync")]),
              ("rehash-pending", [("cmd", "rehash")]),
              # a silent error sits in a synced block (the next sync may repair it on the fly while it handles other changes)
              ("silent-error", [("silent", "d1", "s", 0), ("silent", "d1", "anchor", 0)])]
    return v


FILE_OPS = [
    ("write", "d1", "a", 5000, 1), ("write", "d1", "a", 1024, 2), ("write", "d1", "n", 1025, 0),
    ("write", "d2", "n2", 2500, 0), ("rm", "d1", "a"), ("rm", "d2", "b"), ("mv", "d1", "a", "d1", "m"),
    ("cp", "d1", "a", "d2", "a"), ("write", "d2", "b", 1025, 1), ("dupdata", "d1", "a", "d2", "x"), ("rm", "d2", "a"),
    ("silent", "d1", "a", -1),
]
CMDS = [
    ("cmd", "sync"), ("cmd", "sync", "-B", "1"), ("cmd", "sync", "-S", "1", "-B", "1"), ("cmd", "sync", "-F"),
    ("cmd", "sync", "-R"), ("cmd", "sync", "-h"), ("cmd", "sync", "--test-kill-after-sync"),
    ("cmd", "sync", "--test-force-autosave-at", "1", "--test-kill-after-sync"),
    ("cmd", "scrub", "-p", "full"), ("cmd", "fix"), ("cmd", "fix", "-f", "a"), ("cmd", "fix", "-d", "d2"),
    ("cmd", "rehash"), ("cmd", "touch"), ("cmd", "sync", "-N"),
    ("cmd", "fix", "-S", "0", "-B", "1"),
    ("cmd", "sync", "--test-run", "rm {root}/d1/a"),
    ("cmd", "sync", "--test-run", "touch -d @1500000000 {root}/d2/b"),
    ("cmd", "sync", "-E"),
    # a read error on a data disk in the middle of a sync (first read of a d1 file / second read of a d2 file)
    ("cmd-eio", "d1/*", 0, "sync"), ("cmd-eio", "d2/*", 1, "sync"),
]
CMDS_THOROUGH = [("cmd", "sync", "--test-force-autosave-at", "2"), ("cmd", "fix", "-S", "1", "-B", "2"), ("cmd", "check", "-B", "1"),
                 ("cmd", "fix", "-e"), ("cmd", "fix", "-m"), ("cmd", "scrub", "-p", "new"), ("cmd", "check"),
                 ("cmd", "sync", "-h", "-B", "1"), ("cmd", "sync", "-E", "--test-kill-after-sync"), ("cmd", "sync", "-N", "-B", "1")]


def alphabet(tier, cfg=None):
    ops = FILE_OPS + CMDS + (CMDS_THOROUGH if tier == "thorough" else [])
    if cfg is not None and cfg.tag == "hole":
        ops = [tuple("d3" if x == "d2" else x for x in op) if op[0] != "cmd" else
               tuple(x.replace("/d2/", "/d3/") if isinstance(x, str) else x for x in op) for op in ops]

    def fn(hist, info):
        last = hist[-1] if hist else None
        out = []
        for op in ops:
            # the same read-only / idempotent command twice in a row adds nothing (dedup would catch it, this is cheaper)
            if last == op and op[0] == "cmd":
                continue
            out.append(op)
        return out
    return fn


WRITERS = {"sync", "scrub", "rehash", "touch"}


def step(L, op, res, hist):
    viols = []
    info = {}
    where = "init" if op is None else " ".join(map(str, op))
    for v in X.c06(L, where):
        viols.append(v)
    # content copies identical after a successful writing command
    if res is not None and res.rc == 0 and op[1] in WRITERS:
        raws = []
        for p in L.content_paths():
            try:
                raws.append(open(p, "rb").read())
            except FileNotFoundError:
                raws.append(None)
        present = [r for r in raws if r is not None]
        if present and (len(set(present)) > 1 or len(present) != len(raws)):
            # a copy may legitimately be absent only if no content was ever written
            viols.append(dict(kind="content-copies-differ", where=where))
    if res is not None and res.signal is not None and "--test-kill-after-sync" not in op:
        viols.append(dict(kind="crash-signal-%d" % res.signal, where=where, out=res.text()[-300:]))
    info["checked"] = getattr(X.paritymod.check, "last_checked", 0)
    return viols, info


def collision_job(j):
    cfg, hist, target, seed = j
    out = []
    ncmd = 0
    with labmod.Lab(cfg, seed=seed) as L:
        done = []
        for op in hist:
            r = X.apply_op(L, op)
            done.append(op)
            if op[0] != "cmd":
                continue
            ncmd += 1
            vs = X.c06(L, " ".join(map(str, op)))
            if op == ("cmd", "check") and r.rc != 0:
                vs.append(dict(kind="check-fails-after-sync", where="cmd check", out=r.text()[-300:]))
            for v in vs:
                v["kind"] = "hash-collision-" + v["kind"]
                out.append((v, list(done)))
    return dict(viols=out, ncmd=ncmd)


def key_of(v):
    return "C06/%s/%s" % (v["kind"], v["where"].split(" ")[1] if v["where"].startswith("cmd ") else v["where"].split(" ")[0])


def run(ctx):
    tier = ctx.tier
    depth = 3 if tier == "quick" else 4
    ctx.set("rule", "BFS over op sequences (file ops + every sync flavour/scrub/fix/rehash/touch) of depth<=%d from each of up to 4 initial states (clean sync; copy partly synced = REP blocks recorded; killed after the parity update = CHG blocks recorded; hash migration pending) per configuration; states deduplicated by canonical hash of (data trees, "
                    "decoded content w/o inodes, parity bytes); a case is a transition (state, op); non-trivial = the "
                    "op is a snapraid command executed on a state with >=1 stripe whose blocks are all synced" % depth)
    tot_states = tot_trans = 0
    stripes_checked = [0]

    for cfg in configs(tier):
        if ctx.out_of_time():
            ctx.cap("deadline before configuration %s" % cfg.short())
            break

        def on_violation(v, hist, cfg=cfg):
            ctx.violation(key_of(v), "%s in %s after %s" % (v["kind"], cfg.short(), v["where"]),
                          dict(cfg=cfg.describe(), history=hist, violation=v))

        for vname, vops in variants(cfg, tier):
            if ctx.out_of_time():
                ctx.cap("deadline before %s/%s" % (cfg.short(), vname))
                break
            label = "%s/%s" % (cfg.short(), vname)
            ex = X.Explorer(ctx, cfg, init_ops(cfg) + vops, alphabet(tier, cfg), step, depth, label=label, seed=ctx.seed)
            try:
                ex.run(on_violation)
            except RuntimeError as e:
                if "initial op" in str(e) and vname == "rehash-pending":
                    continue        # a configuration already using the other hash cannot schedule a migration
                raise
            tot_states += ex.states
            tot_trans += ex.transitions
            ctx.set("states[%s]" % label, ex.states)
            ctx.set("transitions[%s]" % label, ex.transitions)
            ctx.set("depth_completed[%s]" % label, ex.maxdepth)
    # ---- the parity disk runs full in the middle of a history (per-file size limit of the tool's own test seam): the sync that cannot
    # allocate the parity it needs must leave a true record behind, whatever its exit status
    nfull = 0
    for lv in (1, 2):
        for limit in (2048, 3072, 4096, 6144):
            cfg = Config(levels=lv, ndisks=2, parity_limit=limit)
            hist = [("write", "d1", "anchor", 700, 0), ("write", "d2", "anchor", 700, 0), ("write", "d1", "a", 1500, 0), ("cmd", "sync"),
                    ("write", "d2", "grow", 9000, 0), ("cmd", "sync"), ("write", "d1", "grow2", 12000, 0), ("cmd", "sync", "-F"),
                    ("rm", "d2", "grow"), ("cmd", "sync"), ("rm", "d1", "grow2"), ("cmd", "sync")]
            with labmod.Lab(cfg, seed=ctx.seed) as L:
                done = []
                for op in hist:
                    r = X.apply_op(L, op)
                    done.append(op)
                    if op[0] != "cmd":
                        continue
                    nfull += 1
                    tot_trans += 1
                    ctx.nontrivial(("parity-full", lv, limit, len(done)))
                    for v in X.c06(L, " ".join(map(str, op))):
                        v["kind"] = "parity-full-" + v["kind"]
                        ctx.violation("C06/%s" % v["kind"], "%s in %s (per-file parity limit %d) after %s" % (v["kind"], cfg.short(), limit, v["where"]),
                                      dict(cfg=cfg.describe(), history=list(done), violation=v))
    ctx.set("parity_full_commands", nfull)
    # ---- reduced hash size (hashsize 2): a block rewritten with bytes whose reduced hash EQUALS the hash recorded for the bytes it
    # replaces, and new blocks whose reduced hash equals one of the two marker values (all-00 / all-ff): a hash that says nothing
    # about identity may not stand in for computing the parity.  Collisions are found by enumeration (vp/explore.py "collide")
    ncol = 0
    jobs = []
    for lv in (1, 2):
        cfg = Config(levels=lv, ndisks=2, hashsize=2)
        base = [("write", "d1", "anchor", 700, 0), ("write", "d2", "anchor", 700, 0), ("write", "d1", "x", 1024, 0),
                ("write", "d2", "y", 3000, 0), ("cmd", "sync")]
        for target, path in (("same", "x"), ("zero", "n"), ("invalid", "n")):
            for cmds in ([("cmd", "sync")], [("cmd", "sync", "-h")], [("cmd", "sync", "-B", "1"), ("cmd", "sync")],
                         [("cmd", "sync", "--test-kill-after-sync"), ("cmd", "sync")],
                         [("cmd", "sync", "--test-kill-after-sync"), ("collide", "d1", path, target, 1), ("cmd", "sync")]):
                jobs.append((cfg, base + [("collide", "d1", path, target, 0)] + cmds + [("cmd", "check")], target, ctx.seed))
    from vp import par
    for j, res in par.pmap(collision_job, jobs, deadline=ctx.deadline):
        cfg, hist, target = j[:3]
        ncol += res["ncmd"]
        tot_trans += res["ncmd"]
        ctx.nontrivial(("hash-collision", cfg.short(), target, repr(hist[6:])))
        for v, done in res["viols"]:
            ctx.violation("C06/%s" % v["kind"], "%s in %s (block with a colliding reduced hash: %s) after %s" % (v["kind"], cfg.short(), target, v["where"]),
                          dict(cfg=cfg.describe(), history=done, violation=v))
    if len(jobs) and ncol == 0:
        ctx.cap("deadline before the hash-collision part")
    ctx.set("hash_collision_commands", ncol)
    # ---- disks that are configured but empty (never saved in the content file, mapped afresh at every start) next to recorded ones, and a
    # new disk entering the configuration: every subset of the three disks empty at the first sync x every place of the new disk in the
    # list x every disk receiving the next file.  Positions handed out at run time may never collide with recorded ones
    import itertools
    jobs = []
    for lv in (1, 2):
        cfg = Config(levels=lv, ndisks=3)
        for k in range(0, 3):
            for empty in itertools.combinations(cfg.disknames, k):
                base = [("write", d, "f" + d, 1024 * (1 + i), 0) for i, d in enumerate(cfg.disknames) if d not in empty] + [("cmd", "sync")]
                for at in range(4):
                    for target in list(cfg.disknames) + ["dn"]:
                        jobs.append((cfg, base + [("adddisk", "dn", at), ("write", target, "late", 1500, 0), ("cmd", "sync"),
                                                  ("write", target, "late2", 700, 0), ("cmd", "sync"), ("cmd", "check")], "map", ctx.seed))
    nmap = 0
    for j, res in par.pmap(collision_job, jobs, deadline=ctx.deadline):
        cfg, hist = j[:2]
        nmap += res["ncmd"]
        tot_trans += res["ncmd"]
        ctx.nontrivial(("disk-mapping", cfg.short(), repr(hist)))
        for v, done in res["viols"]:
            v["kind"] = v["kind"].replace("hash-collision-", "disk-mapping-")
            ctx.violation("C06/%s" % v["kind"], "%s in %s (empty disks and a disk added) after %s" % (v["kind"], cfg.short(), v["where"]),
                          dict(cfg=cfg.describe(), history=done, violation=v))
    ctx.set("disk_mapping_commands", nmap)
    ctx.set("states", tot_states)
    ctx.set("transitions", tot_trans)
    ctx.set("evaluations", tot_trans)
    ctx.set("traces_validated_against_impl", tot_trans)
    for o, n in ctx.outcomes.items():
        if o[0] == "cmd":
            ctx.nontrivial(o)
    # distinct non-trivial = distinct reached states (each evaluated by the oracle)
    ctx.cov["distinct_states"] = tot_states
    for i in range(tot_states):
        ctx.nontrivial(("state", i))
    ctx.sample(dict(cfg=configs(tier)[0].describe(), history=init_ops(configs(tier)[0]) + [FILE_OPS[0], CMDS[1], CMDS[0]]))
    ctx.sample(dict(history_suffix=[FILE_OPS[4], CMDS[6], CMDS[10]]))
    ctx.assumptions += ["crash model and nondeterminism owned through libvp (clock, urandom, statfs) and --test-force-order-alpha",
                        "single threaded I/O (--test-io-cache 1); threaded modes are C13's subject",
                        "synced version of a file = the bytes the lab wrote under that (path,size,mtime) identity"]


def replay(r):
    cfg = Config.from_dict(r["cfg"])
    with labmod.Lab(cfg) as L:
        res = None
        for op in r["history"]:
            res = X.apply_op(L, tuple(op))
        v = X.c06(L, "replay")
        for x in v:
            print("  ", x)
        return not v
