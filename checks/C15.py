"""C15  Scrub checks what its plan says and keeps honest books  (arraymc over synthesized per-stripe books).

The per-stripe info words (last check time, bad, just-synced) of a real synced array are set to EVERY assignment
of a small alphabet through the independent content encoder (byte-validated against the tool elsewhere), then
the real scrub runs under each plan / age option with parity-read tracing.  The set of verified stripes and the
books afterwards are judged by the documented selection rules (vp/scrubplan.py).
"""
import itertools, os
from vp import lab as labmod, explore as X, faults as F, content as C, par, scrubplan, perm
from vp.lab import Config

LEVEL = "model_checking"
BUDGET = {"quick": 240, "thorough": 1800}
DAY = 86400


def base_ops(cfg):
    return [("write", "d1", "f0", 1024, 0), ("write", "d1", "f1", 2048, 0), ("write", "d1", "f2", 1024, 0),
            ("write", "d1", "f3", 2048, 0), ("write", "d2", "g0", 3072, 0), ("write", "d2", "g1", 1000, 0),
            ("cmd", "sync")]


AGES = {"O": 30 * DAY, "M": 15 * DAY, "N": 5 * DAY}        # older than / younger than the default 10 day limit

PLANS_Q = [("50", "0"), ("20", None), (None, None), ("full", None), ("new", None), ("bad", None)]
PLANS_T = PLANS_Q + [("0", None), ("1", "0"), ("8", "5"), ("50", "5"), ("50", "20"), ("100", None), ("100", "0"), ("100", "20"), ("34", "14")]


def set_books(L, c, assign):
    """assign: per used stripe a (age letter, bad, justsynced); the rehash flag of the stripe is kept"""
    now = L.time
    times = []
    for pos, a in assign.items():
        t = now - AGES[a[0]]
        old = c.info[pos]
        c.info[pos] = (t, a[1], bool(old is not None and old[2]), a[2])
        times.append(t)
    c.info_oldest = min(t for t in (i[0] for i in c.info if i is not None))
    raw = C.encode(c)
    for p in L.content_paths():
        with open(p, "wb") as f:
            f.write(raw)


def verified_stripes(L, res, c):
    v = set()
    p0 = set(L.parity_paths(0))
    for e in res.trace:
        if e.call == "pread" and e.path in p0 and e.ret > 0:
            off = e.off
            sp = c.parity[0]["splits"]
            if sp is not None:
                paths = L.parity_paths(0)
                off += sum(s[2] for s in sp[:paths.index(e.path)])
            v.add(off // c.block_size)
    return v


def plan_args(plan, older):
    a = []
    if plan is not None:
        a += ["-p", plan]
    if older is not None:
        a += ["-o", older]
    return a


def job(j):
    cfg, saved, assign, plan, older, damage, seed = j
    L = X.materialize(cfg, saved, seed)
    c = L.content()
    set_books(L, c, assign)
    c = L.content()
    info0 = list(c.info)
    dmg_pos = None
    dmg_set = set()
    if damage is not None:
        kind, pos = damage
        if kind == "data":
            F.damage_data_block(L, c, "d1", pos, "whole")
        elif kind == "parity":
            F.damage_parity_block(L, c, 0, pos, "whole")
        elif kind == "changed-file":
            # a file changed since the last sync (other size and time): errors, but never a bad mark
            loc = F.data_block_location(c, "d1", pos)
            X.apply_op(L, ("write", "d1", loc[0].sub.decode(), loc[0].size + 10, 7))
            dmg_set = {p for _, p, _ in loc[0].blocks}     # every stripe of that file is affected
        dmg_pos = pos
        dmg_set.add(pos)
    where = "books=%s plan=%s older=%s damage=%s" % ("".join("%s%s%s" % (a[0], "b" if a[1] else "", "j" if a[2] else "") for p, a in sorted(assign.items())), plan, older, damage)
    res = L.run("scrub", *plan_args(plan, older), env={"VP_TRACE_READS": "1"})
    v = []
    V = verified_stripes(L, res, c)
    used = {i for i, x in enumerate(info0) if x is not None}
    bad0 = {i for i in used if info0[i][1]}
    now = L.time
    if plan in ("full", "new", "bad"):
        must, may = scrubplan.select(info0, plan, now)[:2]
        if V != must:
            v.append(dict(kind="verified-set-differs", where=where, want=sorted(must), got=sorted(V)))
    else:
        for msg in scrubplan.check_percentage(info0, V, plan, now, None if older is None else int(older), c.blockmax):
            v.append(dict(kind="plan-violated", where=where, msg=msg, verified=sorted(V)))
    c2 = L.content()
    # the books afterwards
    for pos in sorted(used):
        a, b = info0[pos], c2.info[pos]
        if pos not in V:
            if a != b:
                v.append(dict(kind="unverified-stripe-books-changed", where=where, pos=pos, before=a, after=b))
            continue
        damaged_here = damage is not None and pos in dmg_set
        if not damaged_here:
            # verified correct: time refreshed, bad and just-synced cleared
            if b is None or b[0] != now or b[1] or b[3]:
                v.append(dict(kind="verified-correct-not-refreshed", where=where, pos=pos, before=a, after=b))
        else:
            kind = damage[0]
            if kind in ("data", "parity"):
                if b is None or not b[1]:
                    v.append(dict(kind="silent-error-not-marked-bad", where=where, pos=pos, after=b))
                if b is not None and b[0] != a[0]:
                    v.append(dict(kind="time-refreshed-on-error", where=where, pos=pos, before=a, after=b))
            else:
                if b is not None and b[1] and not a[1]:
                    v.append(dict(kind="changed-file-marked-bad", where=where, pos=pos, after=b))
                if b is not None and b[0] != a[0]:
                    v.append(dict(kind="time-refreshed-on-error", where=where, pos=pos, before=a, after=b))
    # damage in a verified stripe must fail the command, nothing else may
    hit = damage is not None and bool(dmg_set & V)
    if hit and res.rc == 0:
        v.append(dict(kind="exit-0-with-verified-damage", where=where))
    if not hit and res.rc != 0:
        v.append(dict(kind="failing-exit-without-verified-damage", where=where, rc=res.rc, out=res.text()[-300:]))
    for pv in perm.violations(L, "scrub", res, c):
        pv["where"] = where
        v.append(pv)
    if damage is None:
        L.scan_versions()
        for o in X.c06(L, where):
            o["kind"] = "after-scrub-" + o["kind"]
            v.append(o)
        if c.prevhash is not None:
            # during a hash migration a stripe verified correct is converted: its flag is cleared
            for pos in sorted(V):
                b = c2.info[pos]
                if b is not None and b[2]:
                    v.append(dict(kind="verified-stripe-still-flagged-rehash", where=where, pos=pos))
    return dict(viols=v, nverified=len(V), rc=res.rc)


def seq_job(j):
    cfg, saved, kind, pos, seed = j
    L = X.materialize(cfg, saved, seed)
    c = L.content()
    v = []
    where = "scrub->fix -e->scrub -p bad with %s damage at %d" % (kind, pos)
    if kind == "data":
        F.damage_data_block(L, c, "d1", pos, "whole")
    else:
        F.damage_parity_block(L, c, 0, pos, "whole")
    L.time += 11 * DAY
    r1 = L.run("scrub", "-p", "full")
    c1 = L.content()
    bad = {i for i, x in enumerate(c1.info) if x is not None and x[1]}
    if bad != {pos}:
        v.append(dict(kind="marking-scrub-bad-set", where=where, got=sorted(bad)))
    r2 = L.run("fix", "-e")
    if r2.rc != 0:
        v.append(dict(kind="fix-e-failed", where=where, rc=r2.rc))
    r3 = L.run("scrub", "-p", "bad", env={"VP_TRACE_READS": "1"})
    V = verified_stripes(L, r3, c1)
    if V != {pos}:
        v.append(dict(kind="scrub-bad-verified-set", where=where, got=sorted(V)))
    c3 = L.content()
    if any(x is not None and x[1] for x in c3.info) or r3.rc != 0:
        v.append(dict(kind="bad-not-cleared-after-repair", where=where, rc=r3.rc))
    st = L.run("status")
    hb = st.tags.get("summary", "has_bad")
    if hb and int(hb[0][2]) != 0:
        v.append(dict(kind="status-still-bad", where=where))
    return dict(viols=v, nverified=len(V), rc=r3.rc)


UNSYNCED = {
    "deleted-partial-sync": [("rm", "d1", "f1"), ("cmd", "sync", "-B", "1")],
    "deleted-not-synced": [("rm", "d1", "f1")],
    "added-partial-sync": [("write", "d1", "new", 2048, 0), ("cmd", "sync", "-B", "1")],
    "replaced-partial-sync": [("write", "d1", "f1", 2048, 5), ("cmd", "sync", "-B", "1")],
    "moved-across-disks-partial": [("mv", "d1", "f1", "d2", "f1"), ("cmd", "sync", "-B", "1")],
    # a rewritten file whose stripes hold no block of the other disk: those stripes are WHOLLY pending, and older than what a scrub refreshes
    "replaced-tail-partial-sync": [("write", "d1", "f3", 2048, 5), ("cmd", "sync", "-B", "1")],
    "killed-sync": [("rm", "d1", "f1"), ("write", "d2", "n2", 1024, 0), ("cmd", "sync", "--test-kill-after-sync")],
}


def unsynced_job(j):
    """differences caused by files changed / removed / added since the last (complete) sync are never marked bad"""
    cfg, saved, name, plan, older, seed = j
    L = X.materialize(cfg, saved, seed)
    for op in UNSYNCED[name]:
        X.apply_op(L, op)
    L.time += 11 * DAY
    c = L.content()
    before = {p: labmod._slurp(p) for l in range(cfg.levels) for p in L.parity_paths(l)}
    res = L.run("scrub", *plan_args(plan, older), env={"VP_TRACE_READS": "1"})
    V = verified_stripes(L, res, c)
    c2 = L.content()
    v = []
    where = "unsynced state %s, plan %s" % (name, plan)
    newbad = [i for i, x in enumerate(c2.info) if x is not None and x[1] and not (c.info[i] is not None and c.info[i][1])]
    if newbad:
        v.append(dict(kind="unsynced-difference-marked-bad", where=where, stripes=newbad))
    st = res.tags.summary()
    if st.get("error_data", "0") != "0" or st.get("error_io", "0") != "0":
        v.append(dict(kind="unsynced-difference-counted-as-data-error", where=where, summary=st))
    # the books of what was NOT verified CORRECT stay as they were (time, marks): not read at all, or read with an error reported
    failed = set()
    for tag in ("error", "parity_error"):
        for t in res.tags.get(tag):
            if len(t) > 1 and t[1].isdigit():
                failed.add(int(t[1]))
    for pos, inf in enumerate(c.info):
        if inf is None or (pos in V and pos not in failed) or pos >= len(c2.info):
            continue
        if c2.info[pos] is None or (c2.info[pos][0], c2.info[pos][3]) != (inf[0], inf[3]):
            v.append(dict(kind="books-moved-without-verification", where=where, pos=pos, before=inf, after=c2.info[pos]))
    after = {p: labmod._slurp(p) for l in range(cfg.levels) for p in L.parity_paths(l)}
    if before != after:
        v.append(dict(kind="scrub-touched-parity", where=where))
    for pv in perm.violations(L, "scrub", res, c):
        pv["where"] = where
        v.append(pv)
    return dict(viols=v, nverified=len(V), rc=res.rc)


# a file changed since the last sync on one disk, and a real silent error in an unchanged synced file of the OTHER disk in a stripe
# they share: (ops, disk, file, block index of the silent error)
UNSYNCED_SILENT = {
    "changed-d1-silent-d2": ([("touch", "d1", "f1", 1)], "d2", "g0", 2),
    "rewritten-d1-silent-d2": ([("write", "d1", "f1", 2048, 7)], "d2", "g0", 1),
    "changed-d2-silent-d1": ([("touch", "d2", "g0", 1)], "d1", "f1", 0),
    "removed-d1-silent-d2": ([("rm", "d1", "f1")], "d2", "g0", 2),
}


def unsynced_silent_job(j):
    """...but a silent error sitting in the same stripe as such a difference is still a silent error: marked bad and counted"""
    cfg, saved, name, plan, older, seed = j
    L = X.materialize(cfg, saved, seed)
    ops, dd, fn, bi = UNSYNCED_SILENT[name]
    c0 = L.content()
    f = next(x for x in c0.disks[dd.encode()].files if x.sub.decode() == fn)
    pos = f.blocks[bi][1]
    for op in ops:
        X.apply_op(L, op)
    F.damage_data_block(L, c0, dd, pos, "flip0")
    L.time += 11 * DAY
    res = L.run("scrub", *plan_args(plan, older))
    c2 = L.content()
    v = []
    where = "unsynced state %s (silent error at stripe %d), plan %s" % (name, pos, plan)
    bad = [i for i, x in enumerate(c2.info) if x is not None and x[1]]
    if pos not in bad:
        v.append(dict(kind="silent-error-beside-a-changed-file-not-marked-bad", where=where, bad=bad))
    if [i for i in bad if i != pos]:
        v.append(dict(kind="unsynced-difference-marked-bad", where=where, stripes=[i for i in bad if i != pos]))
    if res.rc == 0:
        v.append(dict(kind="scrub-exit-0-with-silent-error", where=where))
    st = res.tags.summary()
    if st.get("error_data", "0") == "0":
        v.append(dict(kind="silent-error-not-counted-as-data-error", where=where, summary=st))
    return dict(viols=v, nverified=1, rc=res.rc)


def iter_job(j):
    cfg, saved, seed = j
    L = X.materialize(cfg, saved, seed)
    c = L.content()
    used = {i for i, x in enumerate(c.info) if x is not None}
    covered = set()
    v = []
    for it in range(20):
        L.time += 11 * DAY
        r = L.run("scrub", env={"VP_TRACE_READS": "1"})
        if r.rc != 0:
            v.append(dict(kind="default-scrub-failed", where="iteration %d" % it, rc=r.rc))
            break
        covered |= verified_stripes(L, r, c)
    if covered != used:
        v.append(dict(kind="repeated-default-scrub-misses-stripes", where="20 iterations", missed=sorted(used - covered)))
    return dict(viols=v, nverified=len(covered), rc=0)


def run(ctx):
    tier = ctx.tier
    cfg = Config(levels=1, ndisks=2)
    plans = PLANS_Q if tier == "quick" else PLANS_T
    ctx.set("rule", "books of a real 6-stripe array set to EVERY assignment of ages {30d,15d,5d} (3^6), and every subset of bad "
                    "marks x {just-synced on the young stripes}; each run under plans %r (plan, -o); plus one damage "
                    "(data / parity / file changed since sync) at every stripe under full and 50%%; scrub -> fix -e -> scrub -p bad at every "
                    "stripe; 20 default scrubs with the clock advancing 11 days. non-trivial = scrub verified >=1 stripe" % (plans,))
    with labmod.Lab(cfg, seed=ctx.seed) as L0:
        for op in base_ops(cfg):
            r = X.apply_op(L0, op)
            if r is not None and r.rc != 0:
                raise RuntimeError("base failed\n" + r.text())
        saved = L0.save()
        c = L0.content()
        r = L0.run("rehash")
        if r.rc != 0:
            raise RuntimeError("rehash failed\n" + r.text())
        saved_rehash = L0.save()     # the same array with a hash migration scheduled (every stripe flagged)
        # the same array after two files were deleted and the deletion synced: one stripe in the middle is allocated to nobody
        # (the array has more stripes than stripes that carry a check time), so a 100% quota exceeds what can be verified
        L0.restore(saved)
        for op in [("rm", "d1", "f2"), ("rm", "d2", "g1"), ("cmd", "sync")]:
            r = X.apply_op(L0, op)
            if r is not None and r.rc != 0:
                raise RuntimeError("holed base failed\n" + r.text())
        saved_holed = L0.save()
        c_holed = L0.content()
    used = sorted(i for i, x in enumerate(c.info) if x is not None)
    n = len(used)
    ctx.set("stripes", n)
    used_h = sorted(i for i, x in enumerate(c_holed.info) if x is not None)
    if not (len(used_h) < c_holed.blockmax and max(used_h) == c_holed.blockmax - 1):
        raise RuntimeError("holed base has no hole: %r of %d" % (used_h, c_holed.blockmax))
    jobs = []
    for ages in itertools.product("OMN", repeat=len(used_h)):
        assign = {pos: (a, False, a == "N") for pos, a in zip(used_h, ages)}
        for plan, older in [("100", None), ("100", "20")] + ([] if tier == "quick" else [("100", "0"), ("50", "5"), ("90", "14"), (None, None)]):
            jobs.append(("books-holed", (cfg, saved_holed, assign, plan, older, None, ctx.seed)))
    for ages in itertools.product("OMN", repeat=n):
        assign = {pos: (a, False, a == "N") for pos, a in zip(used, ages)}
        for plan, older in plans:
            if plan in ("full", "new", "bad") and tier == "quick" and ages.count("O") not in (0, n, 3):
                continue
            jobs.append(("books", (cfg, saved, assign, plan, older, None, ctx.seed)))
    for ages in itertools.product("OMN", repeat=n):
        assign = {pos: (a, False, a == "N") for pos, a in zip(used, ages)}
        for plan, older in [("50", "0"), ("20", None), ("full", None)]:
            if plan == "full" and ages.count("O") not in (0, n):
                continue
            jobs.append(("books", (cfg, saved_rehash, assign, plan, older, None, ctx.seed)))
    for k in range(0, n + 1):
        for bads in itertools.combinations(used, k):
            if tier == "quick" and k > 2 and k < n:
                continue
            assign = {pos: ("M" if pos % 2 else "O", pos in bads, False) for pos in used}
            for plan, older in [("bad", None), ("new", None), ("0", None), ("50", "0"), ("full", None)]:
                jobs.append(("books", (cfg, saved, assign, plan, older, None, ctx.seed)))
    for pos in used:
        for kind in ("data", "parity", "changed-file"):
            if kind != "parity" and F.data_block_location(c, "d1", pos) is None:
                continue
            for plan, older in [("full", None), ("50", "0")]:
                assign = {p: ("O" if p <= pos else "M", False, False) for p in used}
                jobs.append(("books", (cfg, saved, assign, plan, older, (kind, pos), ctx.seed)))
            if kind != "changed-file":
                jobs.append(("seq", (cfg, saved, kind, pos, ctx.seed)))
    for name in UNSYNCED:
        for plan, older in [("full", None), ("50", "0"), ("new", None)]:
            jobs.append(("unsynced", (cfg, saved, name, plan, older, ctx.seed)))
    for name in UNSYNCED_SILENT:
        for plan, older in [("full", None), ("100", "0")]:
            jobs.append(("unsynced-silent", (cfg, saved, name, plan, older, ctx.seed)))
    jobs.append(("iter", (cfg, saved, ctx.seed)))
    evals = 0
    done = 0
    for j, r in par.pmap(dispatch, jobs, deadline=ctx.deadline, chunksize=4):
        done += 1
        evals += 1
        if r["nverified"]:
            ctx.nontrivial(repr(j))
        if j[0].startswith("books"):
            ctx.outcome((j[1][3], j[1][4], r["nverified"], r["rc"]))
        for v in r["viols"]:
            ctx.violation("C15/%s/%s" % (j[0], v["kind"]), "%s: %s" % (v["kind"], v.get("where")),
                          dict(kind=j[0], cfg=cfg.describe(), args=[x for x in j[1][2:-1]], violation=v))
        if done in (7, 900):
            ctx.sample(dict(kind=j[0], case=[x for x in j[1][2:-1]]))
    if done < len(jobs):
        ctx.cap("deadline (%d of %d cases)" % (done, len(jobs)))
    ctx.set("evaluations", evals)
    ctx.set("states", evals)
    ctx.set("transitions", evals)
    ctx.set("traces_validated_against_impl", evals)
    ctx.assumptions += ["the tie rule among equally old stripes is not prescribed: any choice within a tie is accepted",
                        "books are planted through the independent content encoder (C10 shows it byte-identical to the tool's)"]


def dispatch(j):
    return {"books": job, "books-holed": job, "seq": seq_job, "iter": iter_job, "unsynced": unsynced_job, "unsynced-silent": unsynced_silent_job}[j[0]](j[1])


def replay(r):
    cfg = Config.from_dict(r["cfg"])
    with labmod.Lab(cfg) as L0:
        for op in base_ops(cfg):
            X.apply_op(L0, op)
        saved = L0.save()
        if r["kind"] == "books-holed":
            for op in [("rm", "d1", "f2"), ("rm", "d2", "g1"), ("cmd", "sync")]:
                X.apply_op(L0, op)
            saved = L0.save()
    a = r["args"]
    if r["kind"] in ("books", "books-holed"):
        assign = {int(k): tuple(v) for k, v in a[0].items()}
        out = job((cfg, saved, assign, a[1], a[2], tuple(a[3]) if a[3] else None, 0))
    elif r["kind"] == "seq":
        out = seq_job((cfg, saved, a[0], a[1], 0))
    elif r["kind"] == "unsynced":
        out = unsynced_job((cfg, saved, a[0], a[1], a[2], 0))
    elif r["kind"] == "unsynced-silent":
        out = unsynced_silent_job((cfg, saved, a[0], a[1], a[2], 0))
    else:
        out = iter_job((cfg, saved, 0))
    for v in out["viols"]:
        print("  ", v)
    return not out["viols"]
