"""C13 part 2: the whole snapraid binary under the cooperative scheduler (LD_PRELOAD), deviation bounded.

Every schedule that departs from the default choice (keep running the current thread, else lowest id; first waiter
for a signal) at no more than D choice points is executed on the real binary - scan threads, reader / writer
threads, content verify threads included - and its outcome (exit status, error / fixed / status tags, parity bytes,
decoded content, data trees) must equal the single-threaded run.  Deadlocks and replay divergence are failures.
"""
import os, time
from vp import lab as labmod, explore as X, par, build
from checks import C13


def sched_so():
    return build.native("libvpsched", ["vpsched.c"], flags=("-DVPS_PRELOAD",), shared=True)


def scenarios(tier):
    sc = C13.cli_scenarios()
    pick = ["sync-adds", "sync-two-silent-errors", "sync-rehash-pending", "scrub"] if tier == "quick" else [s[0] for s in sc]
    out = []
    for s in sc:
        if s[0] in pick:
            out.append(s + (3, 1))
            if tier == "thorough":
                out.append(s + (4, 1))
    if tier == "thorough":
        from vp.lab import Config
        tiny_base = [("write", "d1", "anchor", 700, 0), ("write", "d2", "anchor", 700, 0), ("cmd", "sync"), ("write", "d1", "N", 1500, 0)]
        out.append(("tiny-sync", Config(levels=1, ndisks=2), tiny_base, ("sync",), None, 3, 2))
    return out


def read_trace(path):
    try:
        d = open(path, "rb").read()
    except FileNotFoundError:
        return None, "no trace"
    i = d.rfind(b"\nEND")
    if i < 0:
        return None, "trace without END (process killed?)"
    pts = [(d[k], d[k + 1], d[k + 2], d[k + 3]) for k in range(0, i - i % 4, 4)]
    return pts, d[i + 1:].decode(errors="replace").strip()


def sched_job(j):
    cfg, saved, cmd, depth, prefix, want, seed = j
    L = X.materialize(cfg, saved, seed)
    so = sched_so()
    out = L.p("log", "sched.out")
    if os.path.exists(out):
        os.unlink(out)
    env = {"LD_PRELOAD": L.libvp + " " + so, "VPS_EXE": os.path.realpath(L.exe), "VPS_OUT": out,
           "VPS_PREFIX": "".join("%02x" % c for c in prefix)}
    r = L.run(cmd[0], *(list(cmd[1:]) + ["--test-io-cache", str(depth)]), det=False, env=env, timeout=120)
    pts, end = read_trace(out)
    v = []
    if pts is None:
        v.append(dict(kind="scheduler-run-broken", detail=end, rc=r.rc, out=r.text()[-300:]))
        return dict(viols=v, pts=[])
    if "result=0" not in end:
        kind = "deadlock" if "result=3" in end else "replay-divergence" if "result=4" in end else "scheduler-failure"
        v.append(dict(kind=kind, detail=end))
        return dict(viols=v, pts=pts)
    got = C13.outcome(L, r)
    if want is not None and got != want:
        what = [n for n, a, b in zip(("exit", "tags", "parity", "content", "tree"), got, want) if a != b]
        v.append(dict(kind="outcome-depends-on-schedule", differs=what, rc=r.rc))
    return dict(viols=v, pts=pts, outcome=got if want is None else None)


def run(ctx):
    tier = ctx.tier
    total = 0
    budget_end = time.time() + 0.25 * (ctx.deadline - ctx.t0)
    for name, cfg, ops, cmd, inflight, depth, D in scenarios(tier):
        if time.time() > min(budget_end, ctx.deadline):
            ctx.cap("part 2: time slice used up before scenario %s" % name)
            break
        with labmod.Lab(cfg, seed=ctx.seed) as L:
            C13.prepare(L, ops, inflight)
            saved = L.save()
            ref = L.run(cmd[0], *cmd[1:])            # single threaded, no scheduler
            want = C13.outcome(L, ref)
        # default schedule first
        r0 = sched_job((cfg, saved, cmd, depth, (), want, ctx.seed))
        total += 1
        label = "%s/cache%d" % (name, depth)
        for v in r0["viols"]:
            ctx.violation("C13/binary/%s/%s" % (name, v["kind"]), "%r under the default schedule (%s)" % (v, label),
                          dict(part="binary", scenario=name, depth=depth, prefix=[], violation=v))
        if not r0["pts"]:
            continue
        # determinism guard: the default schedule replayed must give the same choice points
        r0b = sched_job((cfg, saved, cmd, depth, (), want, ctx.seed))
        if [p[:3] for p in r0b["pts"]] != [p[:3] for p in r0["pts"]]:
            raise RuntimeError("scheduler run is not deterministic for " + label)
        frontier = [((), r0["pts"])]
        done_runs = 1
        for level in range(1, D + 1):
            jobs = []
            for prefix, pts in frontier:
                for i in range(len(prefix), len(pts)):
                    n = pts[i][0]
                    for alt in range(1, n):
                        newp = tuple(p[1] for p in pts[:i]) + (alt,)
                        jobs.append((cfg, saved, cmd, depth, newp, want, ctx.seed))
            nxt = []
            cnt = 0
            for j, r in par.pmap(sched_job, jobs, deadline=min(budget_end, ctx.deadline)):
                cnt += 1
                total += 1
                ctx.extra_distinct += 1
                for v in r["viols"]:
                    ctx.violation("C13/binary/%s/%s" % (name, v["kind"]), "%r with schedule prefix %s (%s)" % (
                        v, "".join("%02x" % c for c in j[4])[-40:], label),
                        dict(part="binary", scenario=name, depth=depth, prefix=list(j[4]), violation=v))
                if level < D and r["pts"]:
                    nxt.append((j[4], r["pts"]))
            done_runs += cnt
            if cnt < len(jobs):
                ctx.cap("part 2 %s: deviation level %d stopped by the time slice (%d of %d schedules)" % (label, level, cnt, len(jobs)))
                break
            ctx.set("binary_deviation_bound_completed[%s]" % label, level)
            frontier = nxt
        ctx.set("binary_schedules[%s]" % label, done_runs)
        ctx.set("binary_choice_points[%s]" % label, len(r0["pts"]))
        ctx.nontrivial(("binary", label))
    ctx.set("binary_runs", total)
    if total:
        ctx.sample(dict(part="binary", scenario="sync-adds", cache=3, schedule_prefix_example="0000000001", compared=["exit", "tags", "parity", "content", "tree"]))
    return total
