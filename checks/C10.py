"""C10  Saving and reloading the array state is lossless.

(a) every distinct state reached by a BFS over real histories (pending / replaced / deleted blocks, bad, rehash and
    just-synced marks, holes, links, dirs, odd names, both hash kinds, reduced hash sizes, v2/v3, several copies):
    test-rewrite reproduces the file byte for byte, the independent encoder reproduces it byte for byte, the dumps
    (list, status -G) are identical whichever copy is read.
(b) states synthesised with the independent encoder: every scalar field at varint boundary values, invalid / zero /
    max nanoseconds, sparse maps with long holes and positions up to 2^21, alternating info runs; the tool's
    rewrite must reproduce the encoder's bytes and list/status must show the values.
"""
import copy, itertools, os
from vp import lab as labmod, explore as X, content as C, par, taglog
from vp.lab import Config
from checks import C06

LEVEL = "model_checking"
BUDGET = {"quick": 240, "thorough": 1800}


def configs(tier):
    cs = [Config(levels=1, ndisks=2, contents=["c0/content", "c1/content"], uuid=True),
          Config(levels=2, ndisks=3, hashsize=8, hashkind="spooky2", contents=["c0/content", "d1/.content", "c1/content"],
                 splits={0: 2, 1: 2}, parity_limit=6144)]
    # disks whose whole recorded state is one symlink / one empty directory
    cs.append(Config(levels=1, ndisks=4, tag="sparse", contents=["c0/content", "c1/content"]))
    # a disk whose only recorded state are DELETED positions (emptied, the sync that follows stops early)
    cs.append(Config(levels=2, ndisks=2, tag="emptied", contents=["c0/content", "c1/content"]))
    cs.append(Config(levels=1, ndisks=2, tag="phantom", contents=["c0/content", "c1/content"]))
    # positions that hold a DELETED record on BOTH disks and a file on none, saved by a sync that starts beyond them
    cs.append(Config(levels=1, ndisks=2, tag="codeleted", contents=["c0/content", "c1/content"]))
    if tier == "thorough":
        cs += [Config(levels=2, ndisks=3, tag="hole", contents=["c0/content", "c1/content"]),
               Config(levels=3, z=True, ndisks=2, hashsize=2, contents=["c0/content", "c1/content"])]
    return cs


def init_ops(cfg):
    if cfg.tag == "phantom":
        # a disk whose last remains are DELETED positions that no file of any disk uses any more, saved by a sync that is killed
        # right after its first content write (sync -E because the disk is now empty)
        return [("write", "d1", "A", 1024, 0), ("write", "d1", "B", 1024, 0), ("write", "d2", "C", 1024, 0), ("cmd", "sync"),
                ("rm", "d1", "A"), ("cmd", "sync"), ("rm", "d2", "C"), ("cmd", "sync", "-E", "--test-kill-after-sync")]
    if cfg.tag == "codeleted":
        return [("write", "d1", "A", 2048, 0), ("write", "d1", "K", 1024, 0), ("write", "d2", "B", 2048, 0), ("write", "d2", "K2", 1024, 0),
                ("cmd", "sync"), ("rm", "d1", "A"), ("rm", "d2", "B"), ("cmd", "sync", "-S", "2")]
    ops = C06.init_ops(cfg)
    # odd names, links, dirs before the first sync
    extra = [("write", "d1", "nl\nx", 10, 0), ("write", "d2", "co:lon", 1024, 0), ("write", "d1", "\udcff\udcfe", 0, 0),
             ("symlink", "d1", "l n", "a"), ("hardlink", "d2", "hl", "b"), ("mkdir", "d2", "e d/x"), ("write", "d1", "z0", 5, 0, 0),
             # several links and several empty directories on ONE disk (their record order must survive a reload)
             ("symlink", "d1", "a-second-link", "z0"), ("symlink", "d1", "m-third", "nowhere"), ("mkdir", "d2", "a-first-empty"),
             ("mkdir", "d2", "zz-last-empty/inner")]
    if cfg.tag == "sparse":
        ops = [o for o in ops if not (o[0] != "cmd" and o[1] in ("d3", "d4"))]
        extra += [("symlink", "d3", "only-a-link", "../d1/a"), ("mkdir", "d4", "only/an/empty/dir")]
    i = ops.index(("cmd", "sync"))
    ops = ops[:i] + extra + ops[i:]
    if cfg.tag == "emptied":
        # d1 holds one file longer than everything on d2; it is emptied and the forced sync is limited to the first stripe
        j = ops.index(("cmd", "sync"))
        ops = ops[:j] + [("write", "d1", "0long", 12000, 0)] + ops[j:] + [("emptydisk", "d1"), ("cmd", "sync", "-E", "-B", "1")]
    return ops


def dumps(L, copy_index=None):
    """(list tag lines, status -G block lines) as the tool prints them"""
    out = []
    for cmd in (("list",), ("status", "-G")):
        r = L.run(cmd[0], *cmd[1:], bracket=False)
        lines = [l for l in r.tags.raw.split(b"\n") if l.split(b":")[0] in (b"file", b"link_symlink", b"link_hardlink", b"block", b"block_noinfo")
                 or l.startswith(b"summary:has_")]
        out.append((r.rc, tuple(lines)))
    return tuple(out)


def step(L, op, res, hist):
    v = []
    where = "init" if op is None else " ".join(map(str, op))
    paths = L.content_paths()
    try:
        raw = open(paths[0], "rb").read()
    except FileNotFoundError:
        return v, {}
    try:
        c = C.decode(raw)
    except C.ContentError as e:
        return [dict(kind="content-undecodable", where=where, err=str(e))], {}
    # what is saved derives from what was loaded: DELETED positions keep the hash recorded there before the command
    cb = getattr(L, "content_before", None)
    if op is not None and op[0] == "cmd" and cb:
        from vp import parity as P
        try:
            c0 = C.decode(cb)
        except C.ContentError:
            c0 = None
        if c0 is not None and c0.block_size == c.block_size and c0.hash_size == c.hash_size:
            for o in P.deleted_continuity(c0, c):
                o["where"] = where
                v.append(o)
    # the parity side of what is recorded (C06's oracle): a state that forgets pending positions shows up as stale parity
    for o in X.c06(L, where):
        v.append(o)
    # independent encoder == tool bytes
    enc = C.encode(c, now=L.time)
    if enc != raw:
        i = next((k for k in range(min(len(enc), len(raw))) if enc[k] != raw[k]), min(len(enc), len(raw)))
        v.append(dict(kind="independent-encoder-differs", where=where, at=i, len_tool=len(raw), len_enc=len(enc)))
    # test-rewrite reproduces the file byte for byte (all copies)
    before = {p: labmod._slurp(p) for p in paths}
    d0 = dumps(L)
    r = L.run("test-rewrite", bracket=False)
    if r.rc != 0:
        v.append(dict(kind="test-rewrite-failed", where=where, rc=r.rc, out=r.text()[-300:]))
    else:
        for p in paths:
            now = labmod._slurp(p)
            if before[p] and now != raw:
                try:
                    same_model = C.decode(now).model(with_inode=True, with_free=True) == c.model(with_inode=True, with_free=True)
                except C.ContentError:
                    same_model = False
                v.append(dict(kind="rewrite-not-byte-identical", where=where, copy=os.path.relpath(p, L.root), same_model=same_model,
                              len_before=len(raw), len_after=len(now)))
        d1 = dumps(L)
        if d1 != d0:
            v.append(dict(kind="dumps-differ-after-rewrite", where=where))
    # whichever copy is read: drop the first copy, the next one must tell the same story
    if len(paths) > 1 and all(os.path.exists(p) for p in paths):
        saved = {p: labmod._slurp(p) for p in paths}
        for i in range(len(paths) - 1):
            os.unlink(paths[i])
            d2 = dumps(L)
            if d2 != d0:
                v.append(dict(kind="dumps-differ-between-copies", where=where, copy=i + 1))
                break
        for p, b in saved.items():
            with open(p, "wb") as f:
                f.write(b)
    # after a successful complete sync what was saved is what the tree holds (nothing silently dropped on save)
    if res is not None and res.rc == 0 and tuple(op) == ("cmd", "sync"):
        from checks import C11
        gf, gl, gd = C11.ground_truth(L)
        rf, rl, rd = C11.recorded(c)
        gf, gl = C11.norm(gf, gl)
        rf, rl = C11.norm(rf, rl)
        own = {(t.split("/", 1)[0], t.split("/", 1)[1]) for t in L.cfg.contents if t.split("/", 1)[0] in L.cfg.disknames}
        gf = {k: x for k, x in gf.items() if k not in own and (k[0], k[1].replace(".lock", "")) not in own}
        if set(rf) != set(gf) or rl != gl or rd != gd:
            v.append(dict(kind="saved-state-misses-tree-elements", where=where, files=sorted(map(repr, set(gf) ^ set(rf)))[:4],
                          links=sorted(map(repr, set(gl.items()) ^ set(rl.items())))[:4], dirs=sorted(map(repr, gd ^ rd))[:4]))
    kinds = set()
    for d in c.disks.values():
        for f in d.files:
            kinds |= {st for st, _, _ in f.blocks}
        if d.deleted:
            kinds.add("o")
    info_kinds = {(i is None, i and i[1], i and i[2], i and i[3]) for i in c.info}
    return v, dict(kinds="".join(sorted(kinds)), ninfo=len(info_kinds), version=c.version)


# ----------------------------------------------------------------------------- part (b)

B32 = [0, 1, 127, 128, 16383, 16384, 2**21 - 1, 2**21, 2**28 - 1, 2**28, 2**32 - 1]
B64 = B32 + [2**35, 2**42, 2**49, 2**56, 2**63 - 1, 2**63, 2**64 - 1]


def synth_cases(base):
    """yield (name, Content) derived from a real decoded content"""
    def clone():
        return copy.deepcopy(base)
    d1 = next(iter(base.disks))
    # scalar fields of the first file
    for val in B64:
        if val < 2**63:
            c = clone(); c.disks[d1].files[0].mtime_sec = val; yield ("mtime_sec=%d" % val, c)
        c = clone(); c.disks[d1].files[0].inode = val; yield ("inode=%d" % val, c)
    for ns in (None, 0, 1, 999999999, 2**30):
        c = clone(); c.disks[d1].files[0].mtime_nsec = ns; yield ("nsec=%r" % ns, c)
    for val in B32:
        c = clone(); c.maps[0]["total"] = val; c.maps[0]["free"] = val; yield ("map_total_free=%d" % val, c)
        c = clone()
        for l in c.parity:
            c.parity[l]["total"] = val; c.parity[l]["free"] = val
        yield ("parity_total_free=%d" % val, c)
    # info words: times at boundaries, alternating flags every stripe
    # (the info word keeps the time in units of 8 seconds: reachable states only hold multiples of 8, never the future)
    for val in (0, 1, 127, 128, 16383, 16384, 2**21, 2**27):
        c = clone()
        lo = 1000
        c.info = [None if i is None else (lo + (8 * val if k % 2 else 0), False, False, bool(k % 2)) for k, i in enumerate(c.info)]
        c.info_oldest = lo
        yield ("info_time_delta=%d" % val, c)
    c = clone()
    c.info = [None if i is None else (i[0], bool(k % 2), False, bool((k // 2) % 2)) for k, i in enumerate(c.info)]
    yield ("info_alternating_flags", c)
    # sparse map: move the last file's blocks to far positions (long O runs, long empty info runs)
    for far in (127, 128, 16383, 16384, 2**21 - 1, 2**21):
        c = clone()
        f = c.disks[d1].files[-1]
        if not f.blocks:
            continue
        base_pos = max(far, c.blockmax + 3)
        keep = f.blocks[0]
        old = [p for _, p, _ in f.blocks]
        f.blocks = [(st, base_pos + 2 * i, h) for i, (st, p, h) in enumerate(f.blocks)]    # runs of length 1
        newmax = base_pos + 2 * (len(f.blocks) - 1) + 1
        info = list(c.info) + [None] * (newmax - len(c.info))
        used_elsewhere = {p for d in c.disks.values() for ff in d.files for _, p, _ in ff.blocks} | {p for d in c.disks.values() for p in d.deleted}
        for p in old:
            if p not in used_elsewhere:
                info[p] = None
        for _, p, _ in f.blocks:
            info[p] = (c.info_oldest - 800, False, False, True)
        c.info = info
        c.info_oldest = min(i[0] for i in info if i is not None)
        c.blockmax = newmax
        # parity sizes recorded in v3 must cover blockmax
        for l in c.parity:
            if c.parity[l]["splits"] is not None:
                sp = list(c.parity[l]["splits"])
                tot = sum(s[2] for s in sp)
                need = newmax * c.block_size
                if tot < need:
                    sp[-1] = (sp[-1][0], sp[-1][1], sp[-1][2] + need - tot)
                c.parity[l]["splits"] = sp
        yield ("sparse_far=%d" % far, c)
    # a long run (> 2^14 blocks) of one file and of deleted blocks
    c = clone()
    n = 16384 + 5
    start = c.blockmax
    hs = c.hash_size
    c.disks[d1].files.append(C.File(b"long/run", n * c.block_size - 7, 12345, 678, 99, [(C.BLK, start + i, bytes([i % 251]) * hs) for i in range(n)]))
    for i in range(n):
        pass
    d2 = list(base.disks)[-1]
    # with a large block size: a run of deleted positions worth more than 4 GiB (32-bit products in the reader)
    ndel = 300 if c.block_size < 2**20 else (2**32 // c.block_size) + 904
    for i in range(ndel):
        c.disks[d2].deleted[start + i] = bytes([7]) * hs
    c.info = list(c.info) + [(c.info_oldest - 1600, False, False, False)] * n
    c.info_oldest = min(i[0] for i in c.info if i is not None)
    c.blockmax = start + n
    for l in c.parity:
        if c.parity[l]["splits"] is not None:
            sp = list(c.parity[l]["splits"])
            sp[-1] = (sp[-1][0], sp[-1][1], c.blockmax * c.block_size - sum(s[2] for s in sp[:-1]))
            c.parity[l]["splits"] = sp
    yield ("long_runs", c)


def synth_job(j):
    cfg, saved, name, cbytes, seed = j
    L = X.materialize(cfg, saved, seed)
    v = []
    if saved["root"] != L.root:
        # the synthetic bytes were encoded under another (same-length) lab root: re-base the recorded split paths
        from vp import ref
        body = cbytes[:-4].replace(saved["root"].encode(), L.root.encode())
        cbytes = body + ref.crc32c(body).to_bytes(4, "little")
    where = "synthetic " + name
    for p in L.content_paths():
        with open(p, "wb") as f:
            f.write(cbytes)
    c = C.decode(cbytes)
    r = L.run("test-rewrite", bracket=False)
    if r.rc != 0:
        return dict(viols=[dict(kind="synthetic-state-refused", where=where, rc=r.rc, out=r.text()[-300:])], refused=True)
    now = L.content_bytes()
    if now != cbytes:
        try:
            c2 = C.decode(now)
            same = c2.model(with_inode=True, with_free=True) == c.model(with_inode=True, with_free=True)
        except C.ContentError as e:
            same = "undecodable %s" % e
        v.append(dict(kind="synthetic-rewrite-differs", where=where, same_model=same, len_in=len(cbytes), len_out=len(now)))
    # list shows the values
    r = L.run("list", bracket=False)
    got = {}
    for t in r.tags.get("file"):
        got[(t[1], t[2])] = (int(t[3]), int(t[4]), int(t[5]), int(t[6]))
    want = {}
    for d in c.disks.values():
        for f in d.files:
            ns = f.mtime_nsec if f.mtime_nsec is not None else -1
            want[(d.name, f.sub)] = (f.size, f.mtime_sec if f.mtime_sec < 2**63 else f.mtime_sec - 2**64, ns if ns >= 0 else 4294967295,
                                     f.inode if f.inode < 2**63 else f.inode - 2**64)
    if got != want:
        diff = [(k, got.get(k), want.get(k)) for k in sorted(set(got) | set(want)) if got.get(k) != want.get(k)]
        v.append(dict(kind="synthetic-list-differs", where=where, diff=[repr(x) for x in diff[:2]]))
    return dict(viols=v, refused=False)


def run(ctx):
    tier = ctx.tier
    depth = 2 if tier == "quick" else 3
    ctx.set("rule", "(a) BFS depth<=%d with C06's alphabet (file ops + every sync flavour / scrub / fix / rehash / touch) per "
                    "configuration; on every distinct state: independent encoder == tool bytes, test-rewrite byte identical for "
                    "every copy, list / status -G dumps identical after rewrite and whichever copy is read. (b) synthetic states "
                    "from the independent encoder with every scalar at varint boundaries, nsec invalid/0/1/max, sparse maps to "
                    "position 2^21, runs > 2^14, alternating info words. non-trivial = distinct state / synthetic case" % depth)
    tot_states = tot_trans = 0
    kinds_seen = set()
    for cfg in configs(tier):
        if ctx.out_of_time():
            ctx.cap("deadline before " + cfg.short())
            break

        def on_violation(v, hist, cfg=cfg):
            ctx.violation("C10/%s" % v["kind"], "%s in %s after %s" % (v["kind"], cfg.short(), v.get("where")),
                          dict(part="a", cfg=cfg.describe(), history=hist, violation=v))
        ex = X.Explorer(ctx, cfg, init_ops(cfg), C06.alphabet(tier, cfg), step, depth, label=cfg.short(), seed=ctx.seed)
        ex.run(on_violation)
        tot_states += ex.states
        tot_trans += ex.transitions
        ctx.set("states[%s]" % cfg.short(), ex.states)
    for i in range(tot_states):
        ctx.nontrivial(("state", i))
    # ---- (b)
    nsyn = 0
    for cfg in [Config(levels=1, ndisks=2), Config(levels=2, ndisks=2, hashsize=8, splits={0: 2, 1: 2}, parity_limit=8192),
                Config(levels=1, ndisks=2, blocksize=1024)]:       # 1 MiB blocks: sizes and runs beyond 4 GiB with a few thousand positions
        if ctx.out_of_time():
            ctx.cap("deadline before synthetic " + cfg.short())
            break
        with labmod.Lab(cfg, seed=ctx.seed) as L0:
            for op in [("write", "d1", "anchor", 700, 0), ("write", "d2", "anchor", 700, 0), ("write", "d1", "a", 2500, 0),
                       ("write", "d2", "b", 1025, 0), ("cmd", "sync"), ("rm", "d2", "b"), ("write", "d1", "n", 1500, 0),
                       ("cmd", "sync", "-B", "1")]:
                X.apply_op(L0, op)
            saved = L0.save()
            base = L0.content()
        jobs = []
        for name, c in synth_cases(base):
            try:
                raw = C.encode(c)
                C.decode(raw)
            except Exception as e:      # a case my own encoder cannot express is skipped, not judged
                continue
            jobs.append((cfg, saved, name, raw, ctx.seed))
        done = 0
        for j, r in par.pmap(synth_job, jobs, deadline=ctx.deadline):
            done += 1
            nsyn += 1
            ctx.nontrivial(("synthetic", cfg.short(), j[2]))
            ctx.outcome(("synthetic", "refused" if r["refused"] else "loaded"))
            for v in r["viols"]:
                ctx.violation("C10/%s" % v["kind"], "%s: %s (%s)" % (v["kind"], v["where"], cfg.short()),
                              dict(part="b", cfg=cfg.describe(), name=j[2], violation=v))
            if done == 3:
                ctx.sample(dict(part="b", cfg=cfg.short(), case=j[2], content_bytes=len(j[3])))
        if done < len(jobs):
            ctx.cap("synthetic %s: deadline (%d of %d)" % (cfg.short(), done, len(jobs)))
    ctx.set("synthetic_cases", nsyn)
    ctx.set("states", tot_states + nsyn)
    ctx.set("transitions", tot_trans + nsyn)
    ctx.set("evaluations", tot_trans + nsyn)
    ctx.set("traces_validated_against_impl", tot_trans + nsyn)
    ctx.sample(dict(part="a", cfg=configs(tier)[0].short(), history_suffix=[("rm", "d1", "a"), ("cmd", "sync", "-B", "1"), ("cmd", "rehash")]))
    ctx.assumptions += ["clock, urandom and statfs are frozen so that a rewrite has no reason to differ",
                        "synthetic sizes whose block count exceeds the recorded parity size are generated only with a consistent map"]


def replay(r):
    cfg = Config.from_dict(r["cfg"])
    if r["part"] == "a":
        with labmod.Lab(cfg) as L:
            res = None
            op = None
            for op in r["history"]:
                res = X.apply_op(L, tuple(op))
            v, _ = step(L, tuple(op), res, r["history"])
    else:
        with labmod.Lab(cfg) as L0:
            for op in [("write", "d1", "anchor", 700, 0), ("write", "d2", "anchor", 700, 0), ("write", "d1", "a", 2500, 0),
                       ("write", "d2", "b", 1025, 0), ("cmd", "sync"), ("rm", "d2", "b"), ("write", "d1", "n", 1500, 0),
                       ("cmd", "sync", "-B", "1")]:
                X.apply_op(L0, op)
            saved = L0.save()
            base = L0.content()
        c = dict(synth_cases(base))[r["name"]]
        v = synth_job((cfg, saved, r["name"], C.encode(c), 0))["viols"]
    for x in v:
        print("  ", x)
    return not v
