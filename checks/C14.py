"""C14  Safety interlocks refuse destructive syncs and change nothing  (trigger enumeration + lock pause points).

Each trigger on each disk / level / setting, alone and combined with ordinary pending changes, with and without
its override.  Refusal = failing status, content and parity byte-identical and not written in the syscall trace.
With the override the same sync succeeds and C11's post-sync oracle holds.  The lock: a first command is paused
(libvp VP_PAUSE) at EVERY one of its state-changing calls while a second sync is attempted.
"""
import os, subprocess, time
from vp import lab as labmod, explore as X, faults as F, content as C, par, crash, perm
from vp.lab import Config
from checks import C11

LEVEL = "fault_enumeration"
BUDGET = {"quick": 200, "thorough": 1500}


def configs(tier):
    cs = [Config(levels=2, ndisks=3, contents=["c0/content", "c1/content"]), Config(levels=1, ndisks=2, uuid=True),
          # the second disk is configured but still empty (never recorded in the content file)
          Config(levels=1, ndisks=2, tag="second-empty"),
          # reduced hash size: the content file records the parity sizes (newer content format)
          Config(levels=2, ndisks=2, hashsize=8)]
    if tier == "thorough":
        cs += [Config(levels=3, ndisks=3, splits={0: 2, 1: 2, 2: 2}, parity_limit=6144, hashsize=8)]
    return cs


def base_ops(cfg):
    ops = []
    for d in (cfg.disknames[:1] if cfg.tag == "second-empty" else cfg.disknames):
        ops += [("write", d, "f1", 1500, 0), ("write", d, "sub/f2", 1025, 0), ("mkdir", d, "keepdir")]
    ops += [("write", "d1", "big", 3000, 0), ("cmd", "sync")]
    return ops


PENDING = [("write", "d1", "new", 1200, 0), ("rm", "d1", "big")]


def triggers(cfg):
    """(name, ops that arm the trigger, override options, conf edit or None)"""
    t = []
    populated = cfg.disknames[:1] if cfg.tag == "second-empty" else cfg.disknames
    for d in populated:
        t.append(("all-missing:" + d, [("emptydisk", d)], ("-E",), None))
        t.append(("all-rewritten:" + d, [("write", d, "f1", 1500, 1), ("write", d, "sub/f2", 1025, 1)] +
                  ([("write", d, "big", 3000, 1)] if d == "d1" else []), ("-E",), None))
        t.append(("missing+rewritten:" + d, [("rm", d, "f1"), ("write", d, "sub/f2", 1025, 1)] +
                  ([("rm", d, "big")] if d == "d1" else []), ("-E",), None))
        # every FILE gone, the recorded empty directory still there
        t.append(("all-files-missing-emptydir-stays:" + d, [("rm", d, "f1"), ("rm", d, "sub/f2")] +
                  ([("rm", d, "big")] if d == "d1" else []), ("-E",), None))
        t.append(("zero-size:" + d, [("write", d, "f1", 0, 1)], ("--force-zero",), None))
        t.append(("zero-size-in-subdir:" + d, [("write", d, "sub/f2", 0, 1)], ("--force-zero",), None))
    for l in range(cfg.levels):
        t.append(("parity-short:%d" % l, [("truncparity", l)], ("-F",), None))
        t.append(("parity-short-R:%d" % l, [("truncparity", l)], ("-R",), None))
        # ... shortened by LESS than a block (1 byte, 100 bytes, a block minus one byte) and by a block and a bit
        for nb, label in ((1, "1"), (100, "100"), (-1, "block-1"), (-1025, "block+1")):
            # (no override is judged here: a parity file that is not a whole number of blocks is refused on its own account, -F or not)
            t.append(("parity-short-by-%s:%d" % (label, l), [("truncparity", l, nb)], None, None))
    t.append(("blocksize-changed", [], None, ("blocksize", 2)))
    t.append(("hashsize-changed", [], None, ("hashsize", 8 if cfg.hashsize == 16 else 16)))
    for d in populated:
        t.append(("disk-dropped:" + d, [], None, ("dropdisk", d)))
    return t


def arm(L, ops):
    for op in ops:
        if op[0] == "truncparity":
            c = L.content()
            paths = L.parity_paths(op[1])
            # truncate the last non-empty split file by one block
            for p in reversed(paths):
                if os.path.exists(p) and os.path.getsize(p) >= c.block_size:
                    nb = op[2] if len(op) > 2 else c.block_size
                    if nb == -1:
                        nb = c.block_size - 1
                    elif nb < 0:
                        nb = c.block_size - nb - 1024
                    with open(p, "r+b") as f:
                        f.truncate(max(0, os.path.getsize(p) - nb))
                    break
        else:
            X.apply_op(L, op)


def edit_conf(L, edit, undo=False):
    if edit is None:
        return
    kind, val = edit
    if undo:
        L.write_conf()
        return
    if kind == "blocksize":
        L.write_conf(L.cfg.clone(blocksize=val))
    elif kind == "hashsize":
        L.write_conf(L.cfg.clone(hashsize=val))
    elif kind == "dropdisk":
        names = [n for n in L.cfg.disknames if n != val]
        L.write_conf(L.cfg.clone(disknames=names, ndisks=len(names)))


def protected(L):
    """bytes of every content and parity file"""
    out = {}
    for p in L.content_paths():
        out[p] = labmod._slurp(p) if os.path.exists(p) else None
    for l in range(L.cfg.levels):
        for p in L.parity_paths(l):
            out[p] = labmod._slurp(p) if os.path.exists(p) else None
    return out


def written_protected(L, res):
    bad = []
    for e in res.trace:
        if e.call in ("write", "pwrite", "ftruncate", "fallocate", "rename", "unlink") and e.ret != -1:
            rel = os.path.relpath(e.path, L.root)
            k = perm.classify(L, rel)
            if k == "content" or k.startswith("parity:"):
                # a stale content.tmp removal attempt (unlink of a non existing tmp) fails with ret -1 and is ignored
                bad.append((e.call, rel))
    return bad


def accompany(cfg, name):
    """what else is pending next to the trigger: nothing, ordinary changes, and - for the per-disk triggers - new files arriving
    on the very disk whose known files are all gone (a fresh file; a look-alike copy of a file of another disk)"""
    acc = [False, True]
    kind, _, d = name.partition(":")
    if kind in ("all-missing", "all-rewritten", "missing+rewritten"):
        acc += ["insert:" + d, "copy:" + d, "insert+copy:" + d]
    return acc


def trigger_job(j):
    cfg, saved, name, ops, override, edit, with_pending, seed = j
    L = X.materialize(cfg, saved, seed)
    if with_pending is True:
        for op in PENDING:
            X.apply_op(L, op)
    arm(L, ops)
    if isinstance(with_pending, str):
        what, _, d = with_pending.partition(":")
        other = next(x for x in cfg.disknames if x != d)
        if "insert" in what:
            X.apply_op(L, ("write", d, "arrived/fresh", 900, 0))
        if "copy" in what:
            X.apply_op(L, ("cp", other, "f1", d, "arrived/f1"))
    edit_conf(L, edit)
    before = protected(L)
    v = []
    where = "%s%s" % (name, "+pending" if with_pending is True else "+" + with_pending if with_pending else "")
    res = L.run("sync")
    after = protected(L)
    if res.rc == 0:
        v.append(dict(kind="not-refused", where=where, out=res.text()[-300:]))
    if before != after:
        v.append(dict(kind="refused-but-modified", where=where,
                      paths=[os.path.relpath(p, L.root) for p in before if before[p] != after.get(p)]))
    w = written_protected(L, res)
    if w:
        v.append(dict(kind="refused-but-wrote", where=where, calls=w[:5]))
    if res.signal is not None and res.signal != 6:
        # SIGABRT is the tool's own os_abort() (e.g. a v2 content file, which has no hash-size record, read with a
        # reduced hashsize in the configuration stops with "Error decoding"): an ugly but failing refusal
        v.append(dict(kind="died-with-signal-%d" % res.signal, where=where))
    # the override
    if edit is not None:
        # a configuration that does not fit the content file has no override: the force options that belong to OTHER interlocks
        # must not get past it either
        for extra in (("-E",), ("-E", "--force-zero", "-F")):
            b2 = protected(L)
            rx = L.run("sync", *extra)
            if rx.rc == 0:
                v.append(dict(kind="not-refused", where=where + " with " + " ".join(extra), out=rx.text()[-300:]))
            if protected(L) != b2:
                v.append(dict(kind="refused-but-modified", where=where + " with " + " ".join(extra)))
            if v:
                break
        edit_conf(L, edit, undo=True)
        r2 = L.run("sync")
    elif override is None:
        return dict(viols=v, rc=res.rc)
    else:
        # the override of ANOTHER interlock (and the force options that are no interlock override at all) must not lift this one
        foreign = {("-E",): [("--force-zero",), ("-U", "-D", "-N", "--force-zero")],
                   ("--force-zero",): [("-E",), ("-E", "-U", "-D", "-N")],
                   ("-F",): [("-E", "--force-zero")], ("-R",): [("-E", "--force-zero")]}.get(tuple(override), [])
        for extra in foreign:
            b2 = protected(L)
            rx = L.run("sync", *extra)
            if rx.rc == 0:
                v.append(dict(kind="lifted-by-a-foreign-override", where=where + " with " + " ".join(extra), out=rx.text()[-300:]))
            if protected(L) != b2:
                v.append(dict(kind="refused-but-modified", where=where + " with " + " ".join(extra)))
            if v:
                break
        r2 = L.run("sync", *override)
    if r2.rc != 0:
        v.append(dict(kind="override-does-not-proceed", where=where, rc=r2.rc, out=r2.text()[-400:]))
    else:
        for o in C11.post_sync_oracle(L, "override " + where):
            o["kind"] = "after-override-" + o["kind"]
            v.append(o)
    return dict(viols=v, rc=res.rc)


# ----------------------------------------------------------------------------- lock

def lock_scenarios(cfg):
    return [("sync", [("write", "d1", "new", 1200, 0)], ("sync",)),
            ("scrub", [], ("scrub", "-p", "full")),
            ("fix", [("emptydisk", "d2")], ("fix",)),
            ("touch", [("write", "d1", "t0", 300, 0, 0), ("cmd", "sync")], ("touch",)),
            ("rehash", [], ("rehash",)),
            ("sync-F", [], ("sync", "-F"))]


def lock_job(j):
    cfg, saved, name, ops, cmd, k, seed = j
    L = X.materialize(cfg, saved, seed)
    for op in ops:
        X.apply_op(L, op)
    fifo = L.p("log", "pause.fifo")
    if os.path.exists(fifo):
        os.unlink(fifo)
    os.mkfifo(fifo)
    argv = [L.exe] + L.base_opts(cmd[0]) + ["--test-io-cache", "1", "--test-skip-multi-scan", "-l", L.p("log", "first.log")] + list(cmd[1:]) + [cmd[0]]
    env = L.env({"VP_PAUSE": "%d:%s" % (k, fifo)}, trace=False)
    p = subprocess.Popen(argv, stdout=subprocess.PIPE, stderr=subprocess.PIPE, env=env, cwd=L.root, stdin=subprocess.DEVNULL)
    where = "%s paused at call %d, second sync" % (" ".join(cmd), k)
    v = []
    # wait until the first command is blocked in open(fifo): our non-blocking open for writing succeeds then
    fd = None
    t0 = time.time()
    while time.time() - t0 < 30:
        try:
            fd = os.open(fifo, os.O_WRONLY | os.O_NONBLOCK)
            break
        except OSError:
            if p.poll() is not None:
                break
            time.sleep(0.002)
    if fd is None:
        out, err = p.communicate()
        return dict(viols=[dict(kind="harness-pause-not-reached", where=where, rc=p.returncode)], harness=True)
    before = protected(L)
    res = L.run("sync")
    after = protected(L)
    if res.rc == 0:
        v.append(dict(kind="second-command-not-refused", where=where))
    elif "already in use" not in res.text():
        v.append(dict(kind="refused-for-another-reason", where=where, out=res.text()[-300:]))
    if before != after:
        v.append(dict(kind="refused-but-modified", where=where))
    w = written_protected(L, res)
    if w:
        v.append(dict(kind="refused-but-wrote", where=where, calls=w[:5]))
    os.write(fd, b"x")
    os.close(fd)
    out, err = p.communicate(timeout=60)
    if p.returncode != 0:
        v.append(dict(kind="first-command-failed-after-resume", where=where, rc=p.returncode, out=(out + err).decode(errors="replace")[-300:]))
    r3 = L.run("sync")
    if r3.rc != 0 and name != "fix":
        v.append(dict(kind="sync-after-release-fails", where=where, rc=r3.rc, out=r3.text()[-300:]))
    return dict(viols=v, harness=False)


def run(ctx):
    tier = ctx.tier
    ctx.set("rule", "every trigger (all files missing / rewritten / mixed per disk, zero-size file per disk, parity shortened per "
                    "level, blocksize / hashsize changed, recorded disk dropped) alone and with pending changes: sync must refuse "
                    "and leave content+parity untouched (bytes and trace), then proceed with the override; lock: first command in "
                    "{sync, scrub, fix, touch} paused at every state-changing call k>=1, second sync refused. non-trivial = every case")
    evals = 0
    for cfg in configs(tier):
        if ctx.out_of_time():
            ctx.cap("deadline before " + cfg.short())
            break
        with labmod.Lab(cfg, seed=ctx.seed) as L0:
            for op in base_ops(cfg):
                r = X.apply_op(L0, op)
                if r is not None and r.rc != 0:
                    raise RuntimeError("base failed\n" + r.text())
            saved = L0.save()
            # number the calls of each lock scenario
            lock_jobs = []
            for name, ops, cmd in lock_scenarios(cfg):
                L0.restore(saved)
                for op in ops:
                    X.apply_op(L0, op)
                r = L0.run(cmd[0], *cmd[1:])
                n = len(crash.sc_calls(r.trace))
                for k in range(1, n):
                    lock_jobs.append(("lock", (cfg, saved, name, ops, cmd, k, ctx.seed)))
        jobs = []
        for name, ops, override, edit in triggers(cfg):
            for wp in accompany(cfg, name):
                jobs.append(("trigger", (cfg, saved, name, ops, override, edit, wp, ctx.seed)))
        jobs += lock_jobs
        done = 0
        for j, r in par.pmap(dispatch, jobs, deadline=ctx.deadline):
            done += 1
            evals += 1
            if r.get("harness"):
                raise RuntimeError("harness problem %r" % r["viols"])
            if j[0] == "trigger":
                name = j[1][2]
                ctx.nontrivial((cfg.short(), name, j[1][6]))
                ctx.outcome(("trigger", name.split(":")[0], r["rc"]))
                for v in r["viols"]:
                    ctx.violation("C14/%s/%s" % (name.split(":")[0], v["kind"]), "%s: %s (%s)" % (v["kind"], v["where"], cfg.short()),
                                  dict(kind="trigger", cfg=cfg.describe(), name=name, with_pending=j[1][6], violation=v))
            else:
                name, k = j[1][2], j[1][5]
                ctx.nontrivial((cfg.short(), "lock", name, k))
                ctx.outcome(("lock", name, len(r["viols"])))
                for v in r["viols"]:
                    ctx.violation("C14/lock/%s/%s" % (name, v["kind"]), "%s: %s (%s)" % (v["kind"], v["where"], cfg.short()),
                                  dict(kind="lock", cfg=cfg.describe(), name=name, k=k, violation=v))
            if done in (4, 60):
                ctx.sample(dict(cfg=cfg.short(), case=j[0], name=j[1][2], extra=j[1][5] if j[0] == "lock" else j[1][6]))
        if done < len(jobs):
            ctx.cap("%s: deadline (%d of %d cases)" % (cfg.short(), done, len(jobs)))
        ctx.set("cases[%s]" % cfg.short(), done)
        ctx.set("lock_pause_points[%s]" % cfg.short(), len(lock_jobs))
    ctx.set("evaluations", evals)
    ctx.assumptions += ["the short-parity trigger truncates an existing parity file by one block (a missing parity file is re-created before the size test, a different question)",
                        "pause point 0 is the creation of the lock file itself, before the lock is held, and is not used"]


def dispatch(j):
    return trigger_job(j[1]) if j[0] == "trigger" else lock_job(j[1])


def replay(r):
    cfg = Config.from_dict(r["cfg"])
    with labmod.Lab(cfg) as L0:
        for op in base_ops(cfg):
            X.apply_op(L0, op)
        saved = L0.save()
    if r["kind"] == "trigger":
        t = next(x for x in triggers(cfg) if x[0] == r["name"])
        out = trigger_job((cfg, saved, t[0], t[1], t[2], t[3], r["with_pending"], 0))
    else:
        s = next(x for x in lock_scenarios(cfg) if x[0] == r["name"])
        out = lock_job((cfg, saved, s[0], s[1], s[2], r["k"], 0))
    for v in out["viols"]:
        print("  ", v)
    return not out["viols"]
