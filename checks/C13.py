"""C13  Results do not depend on thread scheduling or I/O cache depth  (schedmc).

Part 1  ring harness: the real cmdline/io.c under a cooperative scheduler, ALL interleavings of caller, reader and
        writer threads explored (stateless DFS with state-fingerprint pruning = unbounded; preemption bounded for the
        larger rings), with ownership / exactly-once / termination / error-accounting monitors (native/iomc.c).
Part 2  whole binary under the same scheduler as LD_PRELOAD, preemption bounded (see run_binary below).
Part 3  every --test-io-cache depth on CLI scenarios, free running, outcome compared with the single-threaded run.
Part 4  race pass: the CLI scenarios on a ThreadSanitizer build, free running.
"""
import itertools, os, re, subprocess, time
from vp import lab as labmod, explore as X, faults as F, content as C, par, build
from vp.lab import Config

LEVEL = "model_checking"
BUDGET = {"quick": 420, "thorough": 7200}


# ----------------------------------------------------------------------------- part 1

def ring_exe():
    return build.harness("iomc", "iomc.c", extra_src=["vpsched.c"], drop=("cmdline_io.o",), extra_flags=("-fno-omit-frame-pointer",))


def ring_scenarios(tier):
    """(iomax, nd, np, ns, enabled, skip, stop, role, sigout, errw, errpos, rerr, rerrpos, mode, bound)"""
    sc = []
    full = lambda ns: (1 << ns) - 1
    # smallest ring, everything varied, unbounded (fingerprint pruning)
    for role in (0, 1):
        for sigout in (0, 1):
            for enabled in (7, 5):
                for skip in ((0, 2) if role == 0 else (0,)):
                    for stop in (-1, 1):
                        sc.append((3, 1, 1, 3, enabled, skip, stop, role, sigout, -1, 0, -1, 0, 0, 0))
    for errpos in (0, 1, 2):
        sc.append((3, 1, 1, 3, 7, 0, -1, 0, 0, 0, errpos, -1, 0, 0, 0))
    sc.append((3, 1, 1, 3, 7, 0, -1, 0, 0, -1, 0, 0, 1, 0, 0))        # a reader error
    # an autosave in the middle: io_flush() after stripe k (stop = 100 + k) must return only when every scheduled write is complete
    for k in (0, 1):
        for skip in (0, 2):
            sc.append((3, 1, 1, 3, 7, skip, 100 + k, 0, 0, -1, 0, -1, 0, 0, 0))
    if tier == "thorough":
        sc.append((3, 1, 2, 3, 7, 0, 101, 0, 0, -1, 0, -1, 0, 0, 0))  # two writers, unbounded
    # a deeper ring, unbounded, in both tiers (20k states)
    sc.append((4, 1, 1, 4, 15, 0, -1, 0, 0, -1, 0, -1, 0, 0, 0))
    # wider rings (2 readers / 2 writers: 1e5..1e6 states): thorough only, unbounded
    big = [(3, 2, 1, 3), (3, 1, 2, 3), (3, 2, 2, 3)]
    if tier == "thorough":
        for (iomax, nd, np_, ns) in big:
            for role in (0, 1):
                sc.append((iomax, nd, np_, ns, full(ns), 0, -1, role, 0, -1, 0, -1, 0, 0, 0))
        sc.append((4, 1, 1, 4, 15, 0, -1, 1, 1, -1, 0, -1, 0, 0, 0))
    if tier == "thorough":
        for enabled in range(1, 16):
            for skip in (0, 5, 10):
                sc.append((4, 1, 1, 4, enabled, skip & enabled, -1, 0, 0, -1, 0, -1, 0, 0, 0))
        for stop in (0, 1, 2):
            for role in (0, 1):
                sc.append((3, 2, 1, 3, 7, 0, stop, role, 0, -1, 0, -1, 0, 0, 0))
        for errpos in (0, 1, 2, 3):
            sc.append((4, 1, 2, 4, 15, 0, -1, 0, 0, 1, errpos, -1, 0, 1, 3))
        sc.append((8, 1, 1, 9, 511, 0, -1, 0, 0, -1, 0, -1, 0, 1, 2))
        sc.append((5, 2, 2, 5, 31, 4, -1, 0, 0, -1, 0, -1, 0, 1, 2))
    return sc


def ring_job(j):
    exe, sc, seconds, until = j
    seconds = int(max(5, min(seconds, until - time.time())))
    args = [exe, "explore"] + [str(x) for x in sc] + ["100000000", str(seconds)]
    r = subprocess.run(args, stdout=subprocess.PIPE, stderr=subprocess.PIPE)
    out = r.stdout.decode()
    m = re.search(r"RESULT execs=(\d+) states=(\d+) points=(\d+) maxpoints=(\d+) violations=(\d+) capped=(\d+)", out)
    if not m:
        return dict(error=out[-500:] + r.stderr.decode()[-500:])
    viols = []
    for line in out.split("\n"):
        if line.startswith("VIOL"):
            mm = re.match(r"VIOL result=(\d+) prefix=(\w*) msg=(.*)", line)
            viols.append(dict(result=int(mm.group(1)), prefix=mm.group(2), msg=mm.group(3)))
    return dict(execs=int(m.group(1)), states=int(m.group(2)), points=int(m.group(3)), maxpoints=int(m.group(4)),
                nviol=int(m.group(5)), capped=int(m.group(6)), viols=viols)


def ring_key(msg):
    if msg.startswith("writer-error-lost"):
        return "C13/ring/writer-error-lost"
    if msg.startswith("deadlock"):
        return "C13/ring/deadlock"
    words = re.sub(r"\d+", "N", msg).split()
    return "C13/ring/" + "-".join(words[:6])


# ----------------------------------------------------------------------------- parts 3 and 4: CLI scenarios

def cli_scenarios():
    """name, cfg, ops before, (command under test), in-flight change"""
    base = [("write", "d1", "anchor", 700, 0), ("write", "d2", "anchor", 700, 0), ("write", "d1", "A", 2500, 0), ("write", "d2", "K", 1025, 0),
            ("cmd", "sync")]
    adds = [("write", "d2", "B", 5000, 0), ("write", "d1", "N", 4000, 0), ("write", "d1", "dir/M", 3000, 0)]
    return [
        ("sync-adds", Config(levels=2, ndisks=2), base + adds, ("sync",), None),
        ("sync-silent-error", Config(levels=2, ndisks=2), base + adds, ("sync",), ("dmg", "d1", "A")),
        # two silently damaged synced blocks (d1/anchor and the third block of d3/p) in stripe 3, which also receives a new block of d2/B
        ("sync-two-silent-errors", Config(levels=2, ndisks=3), [("write", "d3", "anchor", 700, 0), ("write", "d3", "p", 3000, 0)] + base + adds,
         ("sync",), [("dmg", "d3", "p", 2), ("dmg", "d1", "anchor", 0)]),
        # a hash migration is pending on stripes that the sync touches: three readers, per-stripe bookkeeping of new hashes
        ("sync-rehash-pending", Config(levels=1, ndisks=3),
         [("write", "d3", "anchor", 700, 0), ("write", "d3", "p", 6000, 0), ("write", "d2", "q", 6000, 0)] + base + [("cmd", "rehash")] + adds,
         ("sync",), None),
        ("sync-file-changed", Config(levels=1, ndisks=2), base + adds, ("sync", "--test-run", "touch -d 2001-01-01 {root}/d1/N"), None),
        # a FATAL error in the middle of the run (the file became a symbolic link after the scan: open fails with ELOOP and sync bails
        # out at that stripe while readers and writers are busy further on)
        ("sync-fatal-error", Config(levels=1, ndisks=2), base + adds,
         ("sync", "--test-run", "rm {root}/d1/dir/M; ln -s /etc/hostname {root}/d1/dir/M"), None),
        ("sync-full", Config(levels=3, ndisks=2), base + adds + [("cmd", "sync")], ("sync", "-F"), None),
        ("scrub", Config(levels=2, ndisks=2), base + adds + [("cmd", "sync")], ("scrub", "-p", "full"), ("dmg", "d2", "B")),
        ("fix", Config(levels=2, ndisks=2), base + adds + [("cmd", "sync")], ("fix",), ("lose", "d1")),
        # the first file of a disk was touched since the sync (same bytes, other time-stamp: a per-block "file changed" verdict), every
        # later block of that disk holds a silent error: per-task results of one stripe must not leak into the stripes that reuse its slot
        ("scrub-touched-then-silent", Config(levels=1, ndisks=2),
         [("write", "d1", "a0", 1024, 0), ("write", "d1", "b1", 9216, 0), ("write", "d2", "k", 10000, 0), ("cmd", "sync")],
         ("scrub", "-p", "full"), [("touch", "d1", "a0", 1)] + [("dmg", "d1", "b1", i) for i in range(9)]),
    ]


def prepare(L, ops, inflight):
    for op in ops:
        r = X.apply_op(L, op)
        if r is not None and r.rc != 0:
            raise RuntimeError("base failed %r\n%s" % (op, r.text()))
    if inflight and isinstance(inflight, list):
        for x in inflight:
            prepare(L, [], x)
        return
    if inflight:
        if inflight[0] == "dmg":
            c = L.content()
            f = next(x for x in c.disks[inflight[1].encode()].files if x.sub.decode() == inflight[2])
            F.damage_data_block(L, c, inflight[1], f.blocks[inflight[3] if len(inflight) > 3 else 0][1], "whole")
        elif inflight[0] == "lose":
            F.lose_disk(L, inflight[1])
        elif inflight[0] == "touch":
            X.apply_op(L, tuple(inflight))


def outcome(L, res):
    """what must not depend on scheduling / cache depth"""
    keep = (b"error", b"parity_error", b"fixed", b"parity_fixed", b"status", b"unrecoverable", b"summary")
    if any("ln -s" in str(a) for a in res.argv):
        # a run that bails out at a fatal error: the readers working ahead may already have logged the same error for later stripes the
        # main loop never reaches; which of those lines exist depends on the read-ahead and is not a result
        keep = tuple(k for k in keep if k != b"error")
    tags = sorted(t for t in res.tags.lines if t[0] in keep
                  and not (t[0] == b"summary" and len(t) > 1 and t[1].startswith(b"parity_block")))
    par_bytes = tuple(L.parity_stream(l) for l in range(L.cfg.levels))
    try:
        model = L.content().model()
    except Exception as e:
        model = "undecodable %s" % e
    tree = {d: {p: e[:4] for p, e in L.tree(d).items()} for d in L.cfg.disknames}
    return (res.rc, tuple(tags), par_bytes, model, repr(sorted(tree.items())))


def depth_job(j):
    name, cfg, ops, cmd, inflight, depths, multiscan, seed = j
    v = []
    with labmod.Lab(cfg, seed=seed) as L:
        prepare(L, ops, inflight)
        S = L.save()
        ref = L.run(cmd[0], *cmd[1:])          # single threaded reference: --test-io-cache 1 --test-skip-multi-scan
        want = outcome(L, ref)
        for depth in depths:
            L.restore(S)
            opts = ["--test-io-cache", str(depth)] + ([] if multiscan else ["--test-skip-multi-scan"])
            r = L.run(cmd[0], *(list(cmd[1:]) + opts), det=False)
            got = outcome(L, r)
            if got != want:
                what = [n for n, a, b in zip(("exit", "tags", "parity", "content", "tree"), got, want) if a != b]
                v.append(dict(kind="outcome-differs-from-single-threaded", scenario=name, depth=depth, multiscan=multiscan, differs=what,
                              rc=(r.rc, ref.rc)))
            if r.signal is not None:
                v.append(dict(kind="died-with-signal-%d" % r.signal, scenario=name, depth=depth))
    return dict(viols=v, n=len(depths))


TSAN_ENV = {"TSAN_OPTIONS": "exitcode=66 halt_on_error=0 report_signal_unsafe=0 second_deadlock_stack=1", "LD_PRELOAD": ""}


def tsan_reports(text):
    """list of (key, excerpt).  key = kind / first snapraid frames of the two access stacks; a report whose two threads
    were both created by state_scan (the per-disk scan threads) and whose frames are all scan/elem map code gets the
    family key 'scan-threads' (the recorded scan-copy-source race shows up with varying frame pairs)."""
    out = []
    for blk in re.split(r"(?=WARNING: ThreadSanitizer)", text):
        if not blk.startswith("WARNING: ThreadSanitizer"):
            continue
        kind = re.match(r"WARNING: ThreadSanitizer: ([^(\n]*)", blk).group(1).strip().replace(" ", "-")
        paras = re.split(r"\n\s*\n", blk)
        tops = []
        access = [p for p in paras if re.search(r"(Read|Write|Previous read|Previous write|Atomic).* of size", p)]
        for s_ in access[:2]:
            fr = [m.group(1) for m in re.finditer(r"#\d+ (\S+) ", s_)]
            fr = [f for f in fr if f not in ("memset", "memcpy", "memcmp", "malloc", "free", "pthread_mutex_lock", "pthread_mutex_unlock") and not f.startswith("__")]
            tops.append(fr[0] if fr else "?")
        created = [p for p in paras if "created by" in p]
        creators = []
        for p in created:
            fr = [m.group(1) for m in re.finditer(r"#\d+ (\S+) ", p)]
            creators.append("state_scan" if "state_scan" in fr else "io_start" if any(f.startswith("io_start") for f in fr) else "other")
        allframes = [m.group(1) for s_ in access[:2] for m in re.finditer(r"#\d+ (\S+) ", s_)]
        scan_code = all(f.startswith(("scan_", "file_", "fs_", "block_", "hash_", "tommy_", "mem", "stamp_")) or f in ("?",) or f.startswith("__")
                        for f in allframes if not f.startswith("pthread"))
        if kind == "data-race" and len(creators) >= 2 and all(c == "state_scan" for c in creators[:2]) and scan_code:
            key = "data-race/scan-threads"
        else:
            key = kind + "/" + "~".join(sorted(tops))
        out.append((key, blk[:1800]))
    return out


def tsan_job(j):
    name, cfg, ops, cmd, inflight, reps, depth, multiscan, seed = j
    exe = build.snapraid("tsan")
    found = {}
    runs = 0
    with labmod.Lab(cfg, exe=exe, seed=seed) as L:
        if name == "scan-copies":
            for i in range(150):
                L.write("d1", "f%03d" % i, L.gen("f%d" % i, 1500))
            L.write("d2", "anchor", L.gen("a", 100))
            r = L.run("sync", det=False, env=TSAN_ENV, trace=False)
            for i in range(150):
                L.cp("d1", "f%03d" % i, "d2", "f%03d" % i)
        else:
            # the preparation itself runs single threaded and without the sanitizer's verdict mattering
            prepare(L, ops, inflight)
        S = L.save()
        for rep in range(reps):
            L.restore(S)
            opts = ["--test-io-cache", str(depth)] + ([] if multiscan else ["--test-skip-multi-scan"])
            r = L.run(cmd[0], *(list(cmd[1:]) + opts), det=False, env=TSAN_ENV, trace=False, bracket=False)
            runs += 1
            for key, ex in tsan_reports(r.err.decode(errors="replace")):
                found.setdefault(key, ex)
    return dict(found=found, runs=runs)


KNOWN_RACES = {
    "data-race/scan-threads": "C13/scan-copy-source-race",
}


def run(ctx):
    tier = ctx.tier
    ctx.set("rule", "part 1: for every ring scenario (io_max, nd, np, stripes, enabled bitmap, skip pattern, early stop or an io_flush() after stripe k - which must return only when every scheduled parity write is complete -, sync/scrub "
                    "role, signal inside/outside the mutex, injected writer/reader error) ALL interleavings at synchronisation "
                    "points and inside the worker callbacks: unbounded with fingerprint pruning (mode 0) or preemption bounded "
                    "(mode 1, bound given). part 3: every --test-io-cache depth of the tier on 6 CLI scenarios x multi-scan on/off "
                    "vs the single-threaded outcome. part 4: ThreadSanitizer build, free running repetitions. "
                    "non-trivial = executed interleaving / (scenario, depth) / tsan run")
    parts = os.environ.get("C13_PARTS", "1234")     # development switch; the registered commands run all parts
    t_ring = 0.45 * (ctx.deadline - time.time())
    exe = ring_exe()
    scs = ring_scenarios(tier) if "1" in parts else []
    ring_until = time.time() + (0.5 if tier == "quick" else 0.6) * (ctx.deadline - time.time())
    per = 200 if tier == "quick" else 3600
    # biggest rings first so that they overlap with the many small ones
    scs = sorted(scs, key=lambda sc: -(sc[1] + sc[2]) * 100 - sc[0] * 10 - sc[3])
    jobs = [(exe, sc, per, ring_until) for sc in scs]
    execs = states = points = 0
    unb_complete = bounded_complete = capped = 0
    for j, r in par.pmap(ring_job, jobs, deadline=ctx.deadline):
        sc = j[1]
        if "error" in r:
            raise RuntimeError("iomc failed on %r: %s" % (sc, r["error"]))
        execs += r["execs"]
        ctx.extra_distinct += r["execs"]     # every execution is a distinct schedule (distinct choice prefix)
        states += r["states"]
        points += r["points"]
        ctx.nontrivial(("ring", sc))
        if r["capped"]:
            capped += 1
            ctx.cap("ring scenario %r stopped by its time slice after %d executions" % (sc, r["execs"]))
        elif sc[13] == 0:
            unb_complete += 1
        else:
            bounded_complete += 1
        seen = set()
        for v in r["viols"]:
            key = ring_key(v["msg"])
            if key in seen:
                continue
            seen.add(key)
            ctx.violation(key, "%s in ring scenario %r" % (v["msg"], sc), dict(part="ring", scenario=sc, prefix=v["prefix"], msg=v["msg"]))
        ctx.outcome(("ring", "mode%d" % sc[13], "viol" if r["nviol"] else "clean"))
    ctx.set("ring_scenarios", len(scs))
    ctx.set("ring_scenarios_unbounded_complete", unb_complete)
    ctx.set("ring_scenarios_bounded_complete", bounded_complete)
    ctx.set("ring_scenarios_capped", capped)
    ctx.set("ring_executions", execs)
    ctx.set("states", max(states, 1))
    ctx.set("transitions", max(points, 1))
    if scs:
      ctx.sample(dict(part="ring", scenario=dict(zip(("io_max", "nd", "np", "stripes", "enabled", "skip", "stop_after", "role", "signal_outside",
                                                    "err_writer", "err_pos", "err_reader", "err_rpos", "mode", "bound"), scs[0]))))
    # ---- part 2
    n2 = run_binary(ctx) if "2" in parts else 0
    # ---- part 3
    depths = [3, 4, 5, 8, 16, 33, 64, 128] if tier == "quick" else list(range(3, 129))
    jobs3 = []
    for name, cfg, ops, cmd, inflight in (cli_scenarios() if "3" in parts else []):
        for ms in (False, True):
            for i in range(0, len(depths), 16):
                jobs3.append((name, cfg, ops, cmd, inflight, depths[i:i + 16], ms, ctx.seed))
    n3 = 0
    for j, r in par.pmap(depth_job, jobs3, deadline=ctx.deadline):
        n3 += r["n"]
        for d in j[5]:
            ctx.nontrivial(("depth", j[0], d, j[6]))
        for v in r["viols"]:
            ctx.violation("C13/depth/%s/%s" % (v["scenario"], v["kind"]), "%r" % v, dict(part="depth", violation=v))
    ctx.set("depth_runs", n3)
    ctx.sample(dict(part="depth", scenario="sync-silent-error", depths=depths[:4], compared=["exit", "tags", "parity bytes", "content", "tree"]))
    # ---- part 4
    reps = 3 if tier == "quick" else 25
    build.snapraid("tsan")
    jobs4 = []
    for name, cfg, ops, cmd, inflight in (cli_scenarios() if "4" in parts else []):
        for depth in ((4,) if tier == "quick" else (3, 8, 64)):
            jobs4.append((name, cfg, ops, cmd, inflight, reps, depth, True, ctx.seed))
    if "4" in parts:
        jobs4.append(("scan-copies", Config(levels=2, ndisks=2), [], ("sync", "-R"), None, reps, 8, True, ctx.seed))
    n4 = 0
    for j, r in par.pmap(tsan_job, jobs4, deadline=ctx.deadline):
        n4 += r["runs"]
        ctx.nontrivial(("tsan", j[0], j[6]))
        for key, ex in r["found"].items():
            k = KNOWN_RACES.get(key, "C13/race/" + key)
            ctx.violation(k, "ThreadSanitizer report %s in scenario %s" % (key, j[0]), dict(part="tsan", scenario=j[0], report=ex))
    ctx.set("tsan_runs", n4)
    total = execs + n2 + n3 + n4
    ctx.set("evaluations", total)
    ctx.set("traces_validated_against_impl", total)
    ctx.assumptions += ["scheduling points are the synchronisation operations plus one point inside every worker callback and in the caller's compute step; unsynchronised accesses are the TSan pass's subject",
                        "sequential consistency; fingerprint = all ring indices and lists, every task state/position, owner words, per-thread (status, waited object, call-site line, callback phase)",
                        "TSan pass can miss a race in a given run, it cannot invent one"]


# ----------------------------------------------------------------------------- part 2 (whole binary under the scheduler)

def run_binary(ctx):
    try:
        from checks import C13bin
    except ImportError:
        return 0
    return C13bin.run(ctx)


def replay(r):
    if r["part"] == "ring":
        exe = ring_exe()
        args = [exe, "replay"] + [str(x) for x in r["scenario"]] + ["1", "60", r["prefix"]]
        p = subprocess.run(args, stdout=subprocess.PIPE)
        print(p.stdout.decode())
        return p.returncode == 0
    print("free-running parts are replayed by re-running the check")
    return False
