"""C05  Fix never silently leaves or produces wrong data  (arraymc).

Phase 1: BFS over histories with complete / partial / killed / stripe-skipping syncs (every reached state is a
target, not only the synced ones).  Phase 2: on each target every detectable damage of a finite menu (any
number of devices, per-file remove/truncate/flip, parity lost/stale/garbage) x every fix filter.  Oracle: each
recorded file either has the bytes of its recorded version or is explicitly reported unrecoverable; nothing
outside the selection / unknown to the content file is written.
"""
import os, fnmatch
from vp import lab as labmod, explore as X, faults as F, content as C, par, parity as P
from vp.lab import Config

LEVEL = "model_checking"
BUDGET = {"quick": 280, "thorough": 2700}


def configs(tier):
    cs = [Config(levels=2, ndisks=2), Config(levels=1, ndisks=3, uuid=True)]
    if tier == "thorough":
        cs += [Config(levels=3, ndisks=3, hashkind="spooky2"), Config(levels=2, ndisks=2, hashsize=8, splits={0: 2, 1: 2}, parity_limit=4096)]
    return cs


def init_ops(cfg):
    ops = [("write", d, "anchor", 700, 0) for d in cfg.disknames]
    ops += [("write", "d1", "A", 1000, 0), ("write", "d2", "K", 700, 0), ("write", "d2", "X", 500, 0),
            ("write", "d1", "dir/M", 2500, 0), ("write", "d1", "Z", 0, 0), ("symlink", "d2", "ln", "K")]
    if cfg.ndisks >= 3:
        ops += [("write", "d3", "C", 3000, 0)]
    ops.append(("cmd", "sync"))
    return ops


def variants(cfg, tier):
    """initial states the history search starts from"""
    v = [("synced", []),
         # a copy-detected file (REP blocks, hashes inherited) whose stripes were never completed, then removed
         ("copy-partly-synced-removed", [("cp", "d1", "dir/M", "d2", "dir/M"), ("cmd", "sync", "-B", "1"), ("rm", "d2", "dir/M")]),
         # a hash migration scheduled and not completed
         ("rehash-pending", [("cmd", "rehash")]),
         # a synced file replaced by a NEW file of the same block length on the same positions, parity still describing the old one
         ("replaced-not-yet-in-parity", [("rm", "d2", "K"), ("write", "d2", "K2", 700, 0), ("cmd", "sync", "-S", "1")]),
         # a new file whose sync was killed after the parity update (recorded CHG, parity already holding it), rewritten since, and a
         # later range-limited sync that saved the state without reaching its stripes
         ("killed-after-parity-rewritten", [("write", "d2", "B", 900, 0), ("cmd", "sync", "--test-kill-after-sync"),
                                            ("write", "d2", "B", 900, 1), ("cmd", "sync", "-B", "1")])]
    if cfg.levels >= 2 or tier == "thorough":
        # a file removed, the sync that followed killed after the parity update: the content still lists its positions as DELETED
        # (with the old hashes) while the parity no longer holds them
        v += [("deleted-killed-after-parity", [("rm", "d2", "X"), ("cmd", "sync", "--test-kill-after-sync")])]
        # a replaced file whose stripes hold no block of any other disk (beyond the end of the other disks), still pending
        v += [("replaced-tail-beyond-other-disks", [("write", "d2", "F", 2048, 0), ("write", "d2", "T", 2048, 0), ("cmd", "sync"),
                                                    ("rm", "d2", "T"), ("write", "d2", "T2", 2048, 0), ("cmd", "sync", "-B", "1")])]
    if tier == "thorough":
        v += [("copy-partly-synced", [("cp", "d1", "dir/M", "d2", "dir/M"), ("cmd", "sync", "-B", "1")]),
              ("killed-after-parity", [("write", "d2", "B", 900, 0), ("cmd", "sync", "--test-kill-after-sync")])]
    return v


def alphabet(cfg, tier):
    ops = [("write", "d2", "B", 900, 0), ("rm", "d2", "X"), ("write", "d2", "Y", 900, 0), ("write", "d1", "A", 1800, 1),
           ("write", "d1", "A", 1000, 2), ("rm", "d1", "dir/M"), ("mv", "d1", "A", "d1", "dir/A2"),
           ("cmd", "sync"), ("cmd", "sync", "-B", "1"), ("cmd", "sync", "--test-kill-after-sync"),
           ("cmd", "sync", "--test-run", "touch -d 2001-01-01 {root}/d1/A"),
           ("cmd", "sync", "--test-run", "rm {root}/d1/dir/M"),
           ("cmd", "sync", "-h")]
    if tier == "thorough":
        ops += [("cmd", "sync", "-S", "1", "-B", "2"), ("cp", "d1", "A", "d2", "A"), ("write", "d2", "K", 700, 1),
                ("cmd", "sync", "--test-force-autosave-at", "1", "--test-kill-after-sync"),
                ("cmd", "scrub", "-p", "full")]

    def fn(hist, info):
        last = hist[-1]
        return [op for op in ops if not (op == last and op[0] == "cmd")]
    return fn


def step(L, op, res, hist):
    viols = [v for v in X.c06(L, "init" if op is None else " ".join(map(str, op)))]
    return viols, {}


# ----------------------------------------------------------------------------- damages and filters

FILTERS = [(), ("-f", "A"), ("-d", "d2"), ("-m",), ("-e",), ("-f", "Y", "-m")]


def damage_menu(cfg, c, tier):
    devs = [("disk", d) for d in cfg.disknames] + [("parity", l) for l in range(cfg.levels)]
    menu = []
    for s in F.subsets(devs, len(devs)):
        menu.append(("lost", s))
    for d in c.disks.values():
        dn = d.name.decode()
        for f in d.files:
            sub = f.sub.decode()
            menu.append(("rm", dn, sub))
            if f.size > 1:
                menu.append(("trunc", dn, sub))
            for i, (st, pos, h) in enumerate(f.blocks):
                if st in (C.BLK,) and (i == 0 or i == len(f.blocks) - 1):
                    menu.append(("flip", dn, sub, i))
    for l in range(cfg.levels):
        menu.append(("parity-stale", l))
        menu.append(("parity-garbage", l))
    menu.append(("none",))
    return menu


def apply_damage(L, c, spec, initial_parity):
    k = spec[0]
    if k == "lost":
        for dev in spec[1]:
            F.apply_device_fault(L, tuple(dev), "lost")
    elif k == "rm":
        L.rm(spec[1], spec[2])
    elif k == "trunc":
        fp = L.p(spec[1], spec[2])
        if not os.path.isfile(fp):
            return
        st = os.lstat(fp)
        with open(fp, "r+b") as fh:
            fh.truncate(st.st_size // 2)
        os.utime(fp, ns=(st.st_mtime_ns, st.st_mtime_ns))
    elif k == "flip":
        fp = L.p(spec[1], spec[2])
        if os.path.exists(fp):
            st = os.lstat(fp)
            off = spec[3] * c.block_size
            if off < st.st_size:
                with open(fp, "r+b") as fh:
                    fh.seek(off)
                    b = fh.read(1)
                    fh.seek(off)
                    fh.write(bytes([b[0] ^ 0x40]))
                os.utime(fp, ns=(st.st_mtime_ns, st.st_mtime_ns))
    elif k == "parity-stale":
        for pth, data in initial_parity.get(spec[1], {}).items():
            with open(L.p(pth), "wb") as fh:
                fh.write(data)
    elif k == "parity-garbage":
        F.corrupt_parity(L, spec[1])
    elif k == "scrub":
        L.run("scrub", "-p", "full")      # the damage applied so far gets recorded (bad marks)
    elif k == "multi":
        for sub in spec[1]:
            apply_damage(L, c, tuple(sub), initial_parity)


def selected(flt, disk, sub, present_before, has_bad):
    """does the filter select file `sub` of `disk` (our names are plain, so -f is a basename match)"""
    ok = True
    i = 0
    names = []
    while i < len(flt):
        if flt[i] == "-f":
            names.append(flt[i + 1])
            i += 2
        elif flt[i] == "-d":
            ok = ok and disk == flt[i + 1]
            i += 2
        elif flt[i] == "-m":
            ok = ok and not present_before
            i += 1
        elif flt[i] == "-e":
            ok = ok and has_bad
            i += 1
        else:
            i += 1
    if names:
        ok = ok and any(fnmatch.fnmatchcase(os.path.basename(sub), n) for n in names)
    return ok


def candidates(L, c, dname, f):
    """acceptable byte strings for a recorded file: versions the lab knows under that identity, narrowed by
    the recorded hashes of synced (BLK) blocks when there are any"""
    cands = P.find_version(L, c, dname, f)
    if any(st == C.BLK for st, _, _ in f.blocks):
        bs = c.block_size
        good = []
        for data in cands:
            if all(P.block_hash(c, pos, data[i * bs:(i + 1) * bs]) == h
                   for i, (st, pos, h) in enumerate(f.blocks) if st == C.BLK):
                good.append(data)
        return good, True
    return cands, False


def run_fix(L, opts):
    """run fix; when it stops with its own 'file ... disappeared ... please rerun the same command' (it renamed a
    duplicate source to .unrecoverable and tripped over it), do what it says, at most 3 times; tags are accumulated"""
    from vp import taglog
    res = L.run("fix", *opts)
    raw = res.tags.raw
    first = res
    n = 0
    while res.rc != 0 and "rerun the same command" in res.text() and n < 3:
        n += 1
        res = L.run("fix", *opts)
        raw += res.tags.raw
    if n:
        res.before = first.before
        res.tags = taglog.Tags(raw)
        res.reruns = n
    return res


def self_inflicted_stop(L, res):
    """structural signature of a recorded defect: fix stopped with 'file X disappeared' although X was renamed to
    X.unrecoverable by fix itself (the duplicate-search set built at start still lists X)"""
    import re
    m = re.findall(r"DANGER! file '([^']*)' disappeared", res.text())
    if not m or res.rc == 0:
        return False
    return all(os.path.lexists(p + ".unrecoverable") for p in m)


def exempt_files(c, snap):
    """recorded files that have no block with a recorded hash (all CHG) and whose on-disk identity already differs
    from the record before any damage: the user changed an unsynced file again.  A change in blocks without a
    recorded hash is outside the statement's damage class ("content changes in blocks that have a recorded hash")."""
    out = set()
    for d in c.disks.values():
        dn = d.name.decode()
        for f in d.files:
            if any(st != C.CHG for st, _, _ in f.blocks):
                continue
            rel = "%s/%s" % (dn, f.sub.decode(errors="surrogateescape"))
            e = snap.get(rel)
            if e is None or e[0] != "f":
                continue
            ns_ok = f.mtime_nsec is None or e[2] % 10**9 == f.mtime_nsec
            if e[1] != f.size or e[2] // 10**9 != f.mtime_sec or not ns_ok:
                out.add(rel)
    return out


def acceptable(L, c, dn, f, data, cands=None):
    """is `data` the recorded version of f?  Block-wise: a block with a recorded hash (BLK, or REP = provisional hash
    of the file it was taken for a copy of) must hash to it; a block without one must equal that block of a version
    the lab wrote under this identity."""
    if data is None or len(data) != f.size:
        return False
    if cands is None:
        cands = P.find_version(L, c, dn, f)
    bs = c.block_size
    for i, (st, pos, h) in enumerate(f.blocks):
        blk = data[i * bs:(i + 1) * bs]
        in_cand = any(cd[i * bs:(i + 1) * bs] == blk for cd in cands)
        if st == C.BLK:
            if P.block_hash(c, pos, blk) != h:
                return False
        elif st == C.REP:
            if P.block_hash(c, pos, blk) != h and not in_cand:
                return False
        else:
            if not in_cand:
                return False
    return True


def fix_oracle(L, c, res, before, flt, where, exempt=()):
    """returns list of violation dicts"""
    v = []
    after = res.after
    tags = res.tags
    unrec = set()
    for t in tags.get("status", "unrecoverable"):
        unrec.add((t[2].decode(), t[3]))
    for t in tags.get("unrecoverable"):
        if len(t) >= 4:
            unrec.add((t[2].decode(), t[3]))
    recovered = {(t[2].decode(), t[3]) for t in tags.get("status", "recovered")}
    summ = tags.summary()
    bad_positions = {i for i, inf in enumerate(c.info) if inf is not None and inf[1]}
    known_paths = set()
    for d in c.disks.values():
        dn = d.name.decode()
        for f in d.files:
            sub = f.sub.decode(errors="surrogateescape")
            rel = "%s/%s" % (dn, sub)
            known_paths.add(rel)
            known_paths.add(rel + ".unrecoverable")
            present_before = rel in before
            has_bad = any(pos in bad_positions for _, pos, _ in f.blocks)
            sel = selected(flt, dn, sub, present_before, has_bad)
            cands, hashed = candidates(L, c, dn, f)
            e = after.get(rel)
            reported = (dn, f.sub) in unrec
            if e is not None and e[0] == "f":
                ok_bytes = e[3] in cands or acceptable(L, c, dn, f, e[3])
                if not ok_bytes and not reported and rel in exempt:
                    pass
                elif not ok_bytes and not reported:
                    # file present under its name with bytes that are not the recorded version and no report
                    if e == before.get(rel) and not sel:
                        pass    # untouched, not selected: nothing claimed about it
                    elif e == before.get(rel) and (e[1] != f.size or e[2] // 10**9 != f.mtime_sec):
                        # untouched AND visibly different from the record (size/time): the tool reports such files
                        # as changed, it does not present them as correct; statement speaks of detectable damage
                        # only, and a user-modified newer file is not damage.  Must not be tagged recovered.
                        if (dn, f.sub) in recovered:
                            v.append(dict(kind="recovered-with-wrong-bytes", where=where, file=rel))
                    else:
                        v.append(dict(kind="wrong-bytes-not-reported", where=where, file=rel, size=e[1],
                                      written=(e != before.get(rel)), hashed=hashed, tagged_recovered=(dn, f.sub) in recovered))
                if (dn, f.sub) in recovered and not ok_bytes:
                    v.append(dict(kind="recovered-with-wrong-bytes", where=where, file=rel, hashed=hashed))
            elif e is None:
                if sel and not reported and f.size > 0 and not _ancestor_blocked(after, rel):
                    v.append(dict(kind="missing-not-reported", where=where, file=rel))
            if reported:
                if res.rc == 0:
                    v.append(dict(kind="unrecoverable-but-exit-0", where=where, file=rel))
                # the summary exists only when the run reached its end; a run that stops with a fatal diagnostic and a
                # failing status after tagging the file has reported it explicitly enough
                if "error_unrecoverable" in summ and summ["error_unrecoverable"] == "0":
                    v.append(dict(kind="unrecoverable-not-in-summary", where=where, file=rel))
            if not sel:
                if before.get(rel) != after.get(rel) or (rel + ".unrecoverable") in after:
                    v.append(dict(kind="unselected-file-written", where=where, file=rel))
        for k, sub, to in d.links:
            known_paths.add("%s/%s" % (dn, sub.decode(errors="surrogateescape")))
        for sub in d.dirs:
            known_paths.add("%s/%s" % (dn, sub.decode(errors="surrogateescape")))
    # files unknown to the content file are never written
    for rel in res.changed():
        top = rel.split("/", 1)[0]
        if top not in L.cfg.disknames:
            continue
        if rel in known_paths:
            continue
        e_b, e_a = before.get(rel), after.get(rel)
        if e_b is not None and e_b[0] == "d" or e_a is not None and e_a[0] == "d":
            continue    # directories are created on the way to recorded files
        v.append(dict(kind="unknown-path-written", where=where, file=rel))
    # content files are never modified by fix
    for rel in res.changed():
        if any(L.p(rel) == cp for cp in L.content_paths()):
            v.append(dict(kind="content-modified-by-fix", where=where, file=rel))
    if res.signal is not None:
        v.append(dict(kind="fix-killed-by-signal-%d" % res.signal, where=where))
    if v and self_inflicted_stop(L, res):
        # whatever is left behind by such a stop (typically a 0-byte file created just before) is attributed to it
        for x in v:
            if x["kind"] in ("wrong-bytes-not-reported", "missing-not-reported"):
                x["detail"] = x["kind"]
                x["kind"] = "fix-stops-on-self-renamed-search-source"
    return v


def _ancestor_blocked(snap, rel):
    """an ancestor path component exists as a non-directory (then the file cannot be created)"""
    parts = rel.split("/")
    for i in range(1, len(parts)):
        e = snap.get("/".join(parts[:i]))
        if e is not None and e[0] != "d":
            return True
    return False


def classify(viol, c, L):
    """structural signatures of the two recorded defects"""
    return None


def damage_job(job):
    cfg, saved, spec, flt, seed, initial_parity = job
    L = X.materialize(cfg, saved, seed)
    try:
        c = L.content()
    except (FileNotFoundError, C.ContentError):
        return dict(viols=[], rc=None, skipped=True)
    L.write("d1", "unknown.txt", b"not in the array", labmod.T0 * 10**9 + 77, record=False)
    exempt = exempt_files(c, L.snap())
    apply_damage(L, c, spec, initial_parity)
    if spec[0] == "multi" and any(tuple(x)[0] == "scrub" for x in spec[1]):
        c = L.content()                   # the record now carries the bad marks of that scrub
    before = L.snap()
    res = run_fix(L, flt)
    viols = fix_oracle(L, c, res, before, flt, repr((spec, flt)), exempt)
    nrec = len(res.tags.get("status", "recovered"))
    nun = len(res.tags.get("status", "unrecoverable"))
    return dict(viols=viols, rc=res.rc, recovered=nrec, unrec=nun, skipped=False,
                sig=signature(L, c, spec, viols, res.after) if viols else None)


def signature(L, c, spec, viols, after=None):
    """classify a violating case structurally (used to match the recorded known findings).

    C05/pasthash-length-mismatch: the wrong bytes fix produced for a CHG block with a unique past hash are the
    bytes of the PREVIOUS occupant of that position (a block of another length, zero padded / cut to the new
    block length), and the past hash is the hash of that previous occupant: check.c hashes the rebuilt bytes over
    the new length, cannot match, and takes the stale data for new data."""
    sigs = []
    bs = c.block_size
    for v in viols:
        key = "C05/" + v["kind"]
        if v["kind"] == "fix-stops-on-self-renamed-search-source":
            sigs.append(key)
            continue
        rel = v.get("file")
        if rel and after is not None and v["kind"] in ("wrong-bytes-not-reported", "recovered-with-wrong-bytes"):
            dn, sub = rel.split("/", 1)
            d = c.disks[dn.encode()]
            f = next((x for x in d.files if x.sub.decode(errors="surrogateescape") == sub), None)
            e = after.get(rel)
            if f is not None and e is not None and e[0] == "f" and e[3] is not None:
                cands, _ = candidates(L, c, dn, f)
                for i, (st, pos, h) in enumerate(f.blocks):
                    if st != C.CHG or h in (b"\0" * c.hash_size, b"\xff" * c.hash_size):
                        continue
                    region = e[3][i * bs:(i + 1) * bs]
                    if any(cd[i * bs:(i + 1) * bs] == region for cd in cands):
                        continue        # this block is right
                    for (vd, vp, vs, vm), datas in L.versions.items():
                        if vd != dn:
                            continue
                        for data in datas:
                            for jb in range(0, max(len(data), 1), bs):
                                ob = data[jb:jb + bs]
                                if len(ob) != len(region) and (ob + b"\0" * bs)[:len(region)] == region \
                                        and P.block_hash(c, pos, ob) == h:
                                    key = "C05/pasthash-length-mismatch"
        sigs.append(key)
    return sigs


def run(ctx):
    tier = ctx.tier
    depth = 2 if tier == "quick" else 3
    ctx.set("rule", "phase 1: BFS depth<=%d over adds/deletes/rewrites (same and other length)/moves and sync flavours "
                    "(complete, -B partial, killed after parity update, stripe skipped because a file was touched / removed "
                    "during the sync, pre-hash); every distinct reached state is a target. phase 2: every subset of devices "
                    "lost (also more than N), per-file remove / truncate / byte flip in a block with a recorded hash, parity "
                    "stale / garbage, each with every filter of %r. non-trivial = fix recovered or reported >=1 file" % (depth, FILTERS))
    evals = 0
    tot_states = tot_trans = 0
    for cfg in configs(tier):
        if ctx.out_of_time():
            ctx.cap("deadline before configuration %s" % cfg.short())
            break

        def on_violation(v, hist, cfg=cfg):
            ctx.violation("C05/history/%s" % v["kind"], "%s in %s after %s" % (v["kind"], cfg.short(), v["where"]),
                          dict(cfg=cfg.describe(), history=hist, violation=v))
        states = []
        for vname, vops in variants(cfg, tier):
            ex = X.Explorer(ctx, cfg, init_ops(cfg) + vops, alphabet(cfg, tier), step, depth, label="%s/%s" % (cfg.short(), vname), seed=ctx.seed)
            st = collect_all(ctx, ex, on_violation)
            tot_states += ex.states
            tot_trans += ex.transitions
            known = {id(x) for x in states}
            states += st
        # parity of the initial synced state = the "stale" parity
        L = X.materialize(cfg, states[0][0], ctx.seed)
        initial_parity = {}
        for l in range(cfg.levels):
            initial_parity[l] = {os.path.relpath(p, L.root): open(p, "rb").read() for p in L.parity_paths(l) if os.path.exists(p)}
        jobs = []
        hist_of = {}
        for si, (saved, hist) in enumerate(states):
            L = X.materialize(cfg, saved, ctx.seed)
            try:
                c = L.content()
            except (FileNotFoundError, C.ContentError):
                continue
            # quick: every filter on the states closest to the initial ones; further out the unfiltered fix plus two filters that
            # rotate with the state (all six over any three consecutive states); thorough: every filter everywhere
            if tier == "thorough" or si < 24:
                flts = FILTERS
            else:
                flts = [FILTERS[0], FILTERS[1 + si % 5], FILTERS[1 + (si + 2) % 5]]
            for spec in damage_menu(L.cfg, c, tier):
                for flt in flts:
                    jobs.append((L.cfg, saved, spec, flt, ctx.seed, initial_parity))
            hist_of[id(saved)] = hist
        done = 0
        for job, r in par.pmap(damage_job, jobs, deadline=ctx.deadline, chunksize=4):
            done += 1
            if r["skipped"]:
                continue
            evals += 1
            spec, flt = job[2], job[3]
            ctx.outcome((spec[0], " ".join(flt), r["rc"]))
            if r["recovered"] or r["unrec"]:
                ctx.nontrivial((cfg.short(), repr(hist_of[id(job[1])]), repr(spec), flt))
            for v, key in zip(r["viols"], r["sig"] or []):
                ctx.violation(key, "%s in %s, damage %r, filter %r" % (v["kind"], cfg.short(), spec, flt),
                              dict(cfg=cfg.describe(), history=hist_of[id(job[1])], damage=spec, filter=flt, violation=v))
            if done in (1, 500):
                ctx.sample(dict(cfg=cfg.short(), history_tail=hist_of[id(job[1])][-3:], damage=spec, filter=flt))
        if done < len(jobs):
            ctx.cap("%s: deadline during damage sweep (%d of %d cases done)" % (cfg.short(), done, len(jobs)))
        ctx.set("targets[%s]" % cfg.short(), len(states))
        ctx.set("damage_cases[%s]" % cfg.short(), done)
    # ---- blocks WITHOUT a recorded hash (a new file whose sync was killed after the parity update) lost together with every subset of
    # the parity levels that still leaves the stripe within the parity count: fix can only cross-check the parities against each
    # other, over every combination; whatever it writes must be the file's bytes or be reported unrecoverable
    import itertools
    for cfg in [Config(levels=3, ndisks=3)] + ([Config(levels=4, ndisks=2), Config(levels=3, z=True, ndisks=2)] if tier == "thorough" else []):
        if ctx.out_of_time():
            ctx.cap("deadline before the no-hash part " + cfg.short())
            break
        hist = init_ops(cfg) + [("write", "d2", "B", 1900, 0), ("cmd", "sync", "--test-kill-after-sync")]
        with labmod.Lab(cfg, seed=ctx.seed) as L0:
            for op in hist:
                X.apply_op(L0, op)
            saved = L0.save()
        jobs = []
        for n in range(1, cfg.levels):
            for S in itertools.combinations(range(cfg.levels), n):
                for how in ("parity-garbage", "lost"):
                    if how == "lost":
                        spec = ("multi", (("rm", "d2", "B"), ("lost", tuple(("parity", l) for l in S))))
                    else:
                        spec = ("multi", (("rm", "d2", "B"),) + tuple((how, l) for l in S))
                    jobs.append((cfg, saved, spec, (), ctx.seed, {}, len(S)))
        for job, r in par.pmap(nohash_job, jobs, deadline=ctx.deadline):
            evals += 1
            spec = job[2]
            ctx.outcome(("no-hash", r["rc"]))
            ctx.nontrivial((cfg.short(), "no-hash", repr(spec)))
            for v, key in zip(r["viols"], r["sig"] or []):
                ctx.violation(key, "%s in %s (new file without hashes), damage %r" % (v["kind"], cfg.short(), spec),
                              dict(cfg=cfg.describe(), history=hist, damage=spec, filter=(), violation=v))
        ctx.set("nohash_cases[%s]" % cfg.short(), len(jobs))
    # ---- silent errors RECORDED by a scrub (bad marks), in a file whose blocks are fragmented around another file of the same disk:
    # every non-empty subset of the blocks {fragment 1, the file in between, fragment 2, an unrelated file} flipped, scrub, then
    # fix -e (alone and combined with -f) and the unfiltered fix
    for cfg in configs(tier):
        if ctx.out_of_time():
            ctx.cap("deadline before the bad-marked part " + cfg.short())
            break
        hist = init_ops(cfg) + [("write", "d1", "f1", 1024, 0), ("write", "d1", "f2", 1024, 0), ("write", "d1", "f3", 1024, 0), ("cmd", "sync"),
                                ("rm", "d1", "f1"), ("rm", "d1", "f3"), ("write", "d1", "frag", 2048, 0), ("cmd", "sync")]
        with labmod.Lab(cfg, seed=ctx.seed) as L0:
            for op in hist:
                r0 = X.apply_op(L0, op)
                if r0 is not None and r0.rc != 0:
                    raise RuntimeError("bad-marked base failed\n" + r0.text())
            c0 = L0.content()
            saved = L0.save()
        fr = next(f for f in c0.disks[b"d1"].files if f.sub == b"frag")
        if fr.blocks[1][1] == fr.blocks[0][1] + 1:
            raise RuntimeError("bad-marked base: the file is not fragmented %r" % (fr.blocks,))
        targets = [("flip", "d1", "frag", 0), ("flip", "d1", "f2", 0), ("flip", "d1", "frag", 1), ("flip", "d1", "A", 0)]
        jobs = []
        for n in range(1, len(targets) + 1):
            for S in itertools.combinations(targets, n):
                for flt in [("-e",), ("-e", "-f", "f2"), ("-e", "-f", "frag"), ()]:     # (-e with -d is refused by the tool)
                    jobs.append((cfg, saved, ("multi", S + (("scrub",),)), flt, ctx.seed, {}))
        for job, r in par.pmap(damage_job, jobs, deadline=ctx.deadline):
            evals += 1
            spec, flt = job[2], job[3]
            ctx.outcome(("bad-marked", " ".join(flt), r["rc"]))
            if r["recovered"] or r["unrec"]:
                ctx.nontrivial((cfg.short(), "bad-marked", repr(spec), flt))
            for v, key in zip(r["viols"], r["sig"] or []):
                ctx.violation(key, "%s in %s (errors recorded by scrub), damage %r, filter %r" % (v["kind"], cfg.short(), spec, flt),
                              dict(cfg=cfg.describe(), history=hist, damage=spec, filter=flt, violation=v))
        ctx.set("bad_marked_cases[%s]" % cfg.short(), len(jobs))
    ctx.set("states", tot_states)
    ctx.set("transitions", tot_trans + evals)
    ctx.set("evaluations", evals)
    ctx.set("traces_validated_against_impl", tot_trans + evals)
    ctx.assumptions += ["damage is restricted to what the statement calls detectable: blocks without a recorded hash are only removed/truncated, never silently altered",
                        "a file that is visibly newer/different in size or time than its record and that fix does not touch is not 'damage'"]


def nohash_job(j):
    """damage_job plus: with at least two intact parity levels left (one to rebuild from, one to cross-check) the hash-less file must
    come back exactly - an honest 'unrecoverable' is not enough there"""
    cfg, saved, spec, flt, seed, ip, nbad = j
    r = damage_job((cfg, saved, spec, flt, seed, ip))
    if nbad <= cfg.levels - 2:
        L = X.worker_lab(cfg, seed)
        want = X.file_bytes(L, "B", 1900, 0)
        try:
            got = L.read("d2", "B")
        except OSError:
            got = None
        if got != want:
            r["viols"] = list(r["viols"]) + [dict(kind="hashless-file-within-the-parity-count-not-recovered", bad_parities=nbad,
                                                  present=got is not None, rc=r["rc"])]
            r["sig"] = list(r["sig"] or []) + ["C05/no-hash/not-recovered-within-parity-count"]
    return r


def collect_all(ctx, ex, on_violation):
    """BFS; returns [(saved, history)] for every distinct state"""
    out = []
    r0 = ex._init(None)
    seen = {r0["canon"]}
    ex.states = 1
    for v in r0["viols"]:
        on_violation(v, list(ex.init_ops))
    out.append((r0["saved"], list(ex.init_ops)))
    frontier = [(r0["saved"], list(ex.init_ops), r0["info"])]
    for depth in range(1, ex.depth + 1):
        jobs = [(saved, hist, op) for saved, hist, info in frontier for op in ex.alphabet_fn(hist, info)]
        nxt = []
        level = {}
        done = 0
        for job, r in par.pmap(X._job_global, X.make_jobs(ex, jobs), deadline=ctx.deadline):
            job = job[3:]
            done += 1
            ex.transitions += 1
            hist = job[1] + [job[2]]
            for v in r["viols"]:
                on_violation(v, hist)
            if r["canon"] in seen:
                continue
            # results arrive in completion order: the representative of a class is the history smallest in a fixed order, not
            # the one that happened to finish first (the filter rotation below depends on the order of the targets)
            cur = level.get(r["canon"])
            if cur is None or repr(hist) < repr(cur[1]):
                level[r["canon"]] = (X.intern_saved(r["saved"]), hist, r["info"])
        seen.update(level)
        ex.states += len(level)
        for saved_, hist_, info_ in level.values():
            nxt.append((saved_, hist_, info_))
            out.append((saved_, hist_))
        if done < len(jobs):
            ctx.cap("%s: deadline in phase 1 at depth %d" % (ex.label, depth))
            break
        ex.maxdepth = depth
        nxt.sort(key=lambda t: repr(t[1]))
        frontier = nxt
    out.sort(key=lambda t: (len(t[1]), repr(t[1])))
    return out


def replay(r):
    cfg = Config.from_dict(r["cfg"])
    with labmod.Lab(cfg) as L:
        for op in r["history"]:
            X.apply_op(L, tuple(op))
            if tuple(op) == ("cmd", "sync") and "initial_parity" not in r:
                pass
        if "damage" not in r:
            v = X.c06(L, "replay")
        else:
            # stale parity = parity right after the initial sync: recompute by replaying the init ops in a second lab
            initial_parity = {}
            with labmod.Lab(cfg) as L0:
                for op in init_ops(cfg):
                    X.apply_op(L0, op)
                for l in range(cfg.levels):
                    initial_parity[l] = {os.path.relpath(p, L0.root): open(p, "rb").read() for p in L0.parity_paths(l) if os.path.exists(p)}
            c = L.content()
            L.write("d1", "unknown.txt", b"not in the array", labmod.T0 * 10**9 + 77, record=False)
            exempt = exempt_files(c, L.snap())
            spec = r["damage"]
            if spec[0] == "lost":
                spec = ("lost", [tuple(x) for x in spec[1]])
            apply_damage(L, c, tuple(spec), initial_parity)
            if spec[0] == "multi" and any(tuple(x)[0] == "scrub" for x in spec[1]):
                c = L.content()
            before = L.snap()
            res = run_fix(L, r["filter"])
            print(res.text()[-800:])
            v = fix_oracle(L, c, res, before, tuple(r["filter"]), "replay", exempt)
            if r.get("violation", {}).get("kind") == "hashless-file-within-the-parity-count-not-recovered":
                try:
                    ok = L.read("d2", "B") == X.file_bytes(L, "B", 1900, 0)
                except OSError:
                    ok = False
                if not ok:
                    v = list(v) + [dict(kind="hashless-file-within-the-parity-count-not-recovered")]
        for x in v:
            print("  ", x)
        return not v
