"""C09  Damaged content files are rejected; content replacement is atomic.

Part 1 (bytemc): content files of several shapes; EVERY single-bit flip, EVERY truncation length, EVERY byte set to
0x00 / 0xff (and all 256 values at every record-tag offset found by the independent decoder) is fed to the real
loader (ASan+UBSan build of the real binary) through status / list / diff / check -a / sync.
Part 2 (crashmc): every kill point of commands that write the content file, with 1..7 content copies: each copy is
at all times a complete old or complete new version.
"""
import os, subprocess, hashlib
from vp import lab as labmod, explore as X, content as C, par, crash, build
from vp.lab import Config

LEVEL = "fault_enumeration"
BUDGET = {"quick": 280, "thorough": 2400}

ASAN_ENV = {"ASAN_OPTIONS": "detect_leaks=0:exitcode=99:abort_on_error=0:allocator_may_return_null=1",
            "UBSAN_OPTIONS": "print_stacktrace=0:exitcode=98"}


def shapes(tier):
    """name, cfg, ops producing the content file"""
    base = [("write", "d1", "anchor", 700, 0), ("write", "d2", "anchor", 700, 0)]
    s = [
        ("v2-plain", Config(levels=1, ndisks=2),
         # name and target lengths and first positions chosen so that one flipped bit in a length byte makes a packed number run on
         # into bytes that carry a stop bit (a 5-byte length >= 2^31): 2-character file name at position 8, 3-character link name with
         # an 8-character target
         base + [("write", "d1", "a", 2500, 0), ("write", "d1", "aa", 5000, 0), ("write", "d1", "ab", 1000, 0),
                 ("symlink", "d1", "ln", "a"), ("symlink", "d1", "abc", "12345678"), ("mkdir", "d2", "ed"), ("cmd", "sync")]),
        ("v3-hash8-split-deleted", Config(levels=2, ndisks=2, hashsize=8, hashkind="spooky2", splits={0: 2, 1: 2}, parity_limit=4096),
         base + [("write", "d1", "a", 2500, 0), ("write", "d2", "sp ace", 1025, 0), ("hardlink", "d1", "hl", "a"), ("cmd", "sync"),
                 ("rm", "d1", "a"), ("write", "d2", "n", 1500, 0), ("cmd", "sync", "-B", "1")]),
    ]
    if tier == "thorough":
        s += [
            ("v2-rehash", Config(levels=1, ndisks=2),
             base + [("write", "d1", "a", 2500, 0), ("cmd", "sync"), ("cmd", "rehash"), ("write", "d1", "b", 1025, 0), ("cmd", "sync")]),
            ("v2-oddnames-z3", Config(levels=3, z=True, ndisks=2),
             base + [("write", "d1", "nl\nx", 10, 0), ("write", "d1", "co:lon", 1024, 0), ("write", "d2", "\udcff\udcfe", 0, 0),
                     ("write", "d2", "dir/sub/back\\sl", 1025, 0), ("cmd", "sync")]),
            ("v3-hash4-pending", Config(levels=1, ndisks=3, hashsize=4),
             base + [("write", "d3", "anchor", 700, 0), ("write", "d3", "c", 3000, 0), ("cmd", "sync"), ("write", "d3", "c", 3000, 1),
                     ("cp", "d3", "anchor", "d1", "anchor2"), ("cmd", "sync", "--test-kill-after-sync")]),
            ("v2-bad-marks", Config(levels=2, ndisks=2),
             base + [("write", "d1", "a", 2500, 0), ("cmd", "sync"), ("cmd", "scrub", "-p", "full")]),
        ]
    return s


def commands(tier):
    return [("status",), ("list",)] if tier == "quick" else [("status",), ("list",), ("diff",), ("check", "-a"), ("sync",)]


def structural_offsets(data):
    """offsets of record tags (and the byte after them) found by walking the file with the independent decoder"""
    offs = set()
    # walk: re-decode prefixes cheaply by instrumenting the reader
    r = C._R(data)
    r.read(12)
    c = C.decode(data)  # validates
    # tags are at positions where the decoder's main loop starts; recover them by a second pass using record_order
    # simple approach: every byte that equals one of the tag letters and every byte with the varint stop bit
    tags = set(b"zxycCMPQfsarhiNbgpoO")
    for i, b in enumerate(data):
        if b in tags:
            offs.add(i)
    return sorted(offs)


def mutations(data, tier):
    n = len(data)
    for i in range(n):
        for bit in range(8):
            yield ("flip", i, bit)
    for l in range(n):
        yield ("trunc", l, 0)
    for i in range(n):
        for val in (0x00, 0xff):
            if data[i] != val:
                yield ("set", i, val)
    if tier == "thorough":
        for i in structural_offsets(data):
            for val in range(256):
                if val != data[i]:
                    yield ("set", i, val)
    # structure aware: every packed number replaced by its extreme encodings (lengths, counts, positions, sizes, times: 2^31,
    # 2^32-1, 2^63, 2^64-1 ... as 5- or 10-byte sequences) - damage of more than one byte, aimed at overflow in bound checks
    try:
        spans = C.decode(data).varint_spans
    except C.ContentError:
        spans = []
    for k, (s0, e0, bits) in enumerate(spans):
        for which in range(len(EXTREMES[bits])):
            yield ("varint", k, which)
    # a byte appended / the last byte duplicated
    yield ("append", n, 0)


EXTREMES = {32: [2**32 - 1, 2**31, 2**31 - 1], 64: [2**64 - 1, 2**63, 2**32]}


def mutate(data, m):
    k, i, x = m
    if k == "varint":
        s0, e0, bits = C.decode(data).varint_spans[i]
        return data[:s0] + C._b(EXTREMES[bits][x]) + data[e0:]
    if k == "flip":
        b = bytearray(data)
        b[i] ^= 1 << x
        return bytes(b)
    if k == "trunc":
        return data[:i]
    if k == "set":
        b = bytearray(data)
        b[i] = x
        return bytes(b)
    return data + b"\0"


def mut_job(j):
    cfg, saved, cmd, muts, seed = j[:5]
    L = X.materialize(cfg, saved, seed)
    exe = build.snapraid("asan")
    orig = L.content_bytes()
    if len(j) > 5 and j[5]:
        orig = bytes.fromhex(j[5]).replace(j[6].encode(), L.root.encode()) if j[6] else bytes.fromhex(j[5])
        if j[6]:
            from vp import ref
            orig = orig[:-4] + ref.crc32c(orig[:-4]).to_bytes(4, "little")
    cpath = L.content_paths()[0]
    out = []
    snap0 = None
    for m in muts:
        data = mutate(orig, m)
        if data == orig:
            # the copy materialised in this worker differs from the one the mutation list was computed on (re-based split
            # paths -> other CRC bytes): a "mutation" that leaves these bytes unchanged is not a mutation
            out.append("not-a-mutation")
            continue
        with open(cpath, "wb") as f:
            f.write(data)
        before = L.snap()
        argv = [exe] + L.base_opts(cmd[0]) + ["--test-io-cache", "1", "--test-skip-multi-scan"] + list(cmd[1:]) + [cmd[0]]
        env = dict(L.env(trace=False))
        env.pop("LD_PRELOAD", None)
        env.update(ASAN_ENV)
        try:
            r = subprocess.run(argv, stdout=subprocess.PIPE, stderr=subprocess.PIPE, env=env, timeout=20 if m[0] == "varint" else 60,
                               cwd=L.root, stdin=subprocess.DEVNULL)
            rc, err, sout = r.returncode, r.stderr, r.stdout
        except subprocess.TimeoutExpired as _te:
            if m[0] == "varint":
                # an extreme run count is walked element by element before the bound is noticed (minutes, then a clean abort): slow,
                # not unsafe; such a case is left unjudged and counted
                out.append("timeout-not-judged")
                continue
            # slow but correct rejections are re-run alone with a longer limit before being called a hang
            try:
                r = subprocess.run(argv, stdout=subprocess.PIPE, stderr=subprocess.PIPE, env=env, timeout=600, cwd=L.root,
                                   stdin=subprocess.DEVNULL)
                rc, err, sout = r.returncode, r.stderr, r.stdout
            except subprocess.TimeoutExpired:
                rc, err, sout = -999, b"TIMEOUT", b""
        after = L.snap()
        changed = {p for p in set(before) | set(after) if before.get(p) != after.get(p)}
        changed = {p for p in changed if not p.endswith(".lock")}
        kind = None
        text = (err + sout).decode(errors="replace")
        if rc == -999:
            kind = "hang"
        elif "AddressSanitizer" in text or rc == 99:
            kind = "asan-report"
        elif "runtime error:" in text or rc == 98:
            kind = "ubsan-report"
        elif rc < 0 and rc != -6:
            kind = "signal-%d" % (-rc)
        elif rc == 0 or (cmd[0] == "diff" and rc == 2):
            kind = "damaged-content-accepted"
        elif changed:
            kind = "modified-files-after-rejecting"
        outcome = "abort" if rc == -6 else "exit%d" % rc
        if kind:
            out.append(dict(kind=kind, mutation=m, cmd=cmd, rc=rc, changed=sorted(changed)[:4], out=text[-400:],
                            content_hex=orig.hex()))     # inode numbers make the bytes differ from run to run: keep them for the replay
        out.append(outcome)
    with open(cpath, "wb") as f:
        f.write(orig)
    viols = [o for o in out if isinstance(o, dict)]
    outcomes = [o for o in out if isinstance(o, str)]
    return dict(viols=viols, outcomes=outcomes, n=len(muts))


# ----------------------------------------------------------------------------- part 2: atomic replacement

def atomic_scenarios(tier):
    base = [("write", "d1", "anchor", 700, 0), ("write", "d2", "anchor", 700, 0), ("write", "d1", "a", 2500, 0), ("cmd", "sync"),
            ("write", "d2", "b", 1025, 0)]
    ncopies = [1, 3] if tier == "quick" else [1, 2, 3, 5, 7]
    out = []
    for n in ncopies:
        contents = ["c%d/content" % i for i in range(n)]
        if n >= 3:
            contents[1] = "d1/.content"
        cfg = Config(levels=1, ndisks=2, contents=contents)
        out.append(("sync", cfg, base, ("sync",)))
        if n in (2, 3):
            # format 3 content (split sizes recorded): a sync with nothing to do does not touch the content by itself
            cfg3 = Config(levels=1, ndisks=2, contents=contents, splits={0: 2}, parity_limit=6144, hashsize=8)
            out.append(("sync-v3", cfg3, base, ("sync",)))
        if tier == "thorough" or n == 3:
            out.append(("touch", cfg, [("write", "d1", "anchor", 700, 0), ("write", "d2", "anchor", 700, 0),
                                       ("write", "d1", "t", 100, 0, 0), ("cmd", "sync")], ("touch",)))
            out.append(("scrub", cfg, base + [("cmd", "sync")], ("scrub", "-p", "full")))
            if n == 3:
                out.append(("touch-v3", cfg3, [("write", "d1", "anchor", 700, 0), ("write", "d2", "anchor", 700, 0),
                                               ("write", "d1", "t", 100, 0, 0), ("cmd", "sync")], ("touch",)))
    return out


def vkey(data):
    """identity of a complete content version: the decoded model without inode numbers (inode numbers of the
    data files differ between two materialisations of the same state, everything else is reproducible)"""
    try:
        c = C.decode(data)
        for p in c.parity.values():
            if p["splits"] is not None:
                # the recorded split paths are absolute (they start with the root of the lab in use)
                p["splits"] = [(b"/".join(x[0].split(b"/")[-2:]),) + tuple(x[1:]) for x in p["splits"]]
        return hashlib.blake2b(repr(c.model()).encode(), digest_size=8).hexdigest()
    except C.ContentError:
        return None


def atomic_job(j):
    cfg, saved, cmd, k, mode, versions, seed = j
    L = X.materialize(cfg, saved, seed)
    res = crash.run_killed(L, cmd[0], cmd[1:], k, mode)
    where = "%s killed %s call %d" % (" ".join(cmd), mode, k)
    if res.signal != 9:
        return dict(viols=[dict(kind="harness-kill-not-reached", where=where, rc=res.rc)], harness=True)
    v = []
    for p in L.content_paths():
        try:
            data = open(p, "rb").read()
        except FileNotFoundError:
            v.append(dict(kind="content-copy-missing", where=where, copy=os.path.relpath(p, L.root)))
            continue
        h = vkey(data)
        if h is None or h not in versions:
            try:
                C.decode(data)
                dec = "decodes"
            except C.ContentError as e:
                dec = "undecodable: %s" % e
            v.append(dict(kind="content-copy-neither-old-nor-new", where=where, copy=os.path.relpath(p, L.root), size=len(data), dec=dec))
    # "after a successful command all copies are byte-identical": the next command of the user, whatever the kill left behind
    if not v:
        r2 = L.run("sync")
        if r2.rc == 0:
            raws = []
            for p in L.content_paths():
                try:
                    raws.append(open(p, "rb").read())
                except FileNotFoundError:
                    raws.append(None)
            if len(set(raws)) != 1:
                same_size = len({len(x) if x is not None else -1 for x in raws}) == 1
                v.append(dict(kind="copies-differ-after-next-successful-sync" + ("-same-size" if same_size else ""), where=where,
                              sizes=[len(x) if x is not None else None for x in raws]))
    return dict(viols=v, harness=False)


def missing_job(j):
    cfg, saved, cmd, miss, seed = j
    L = X.materialize(cfg, saved, seed)
    paths = L.content_paths()
    for i in miss:
        os.unlink(paths[i])
    res = L.run(cmd[0], *cmd[1:])
    where = "%s with cop%s %s missing" % (" ".join(cmd), "y" if len(miss) == 1 else "ies", "+".join(map(str, miss)))
    v = []
    if res.rc == 0:
        raws = [labmod._slurp(p) if os.path.exists(p) else None for p in paths]
        if any(x is None for x in raws):
            v.append(dict(kind="content-copy-still-missing-after-success", where=where, missing=[i for i, x in enumerate(raws) if x is None]))
        elif len(set(raws)) != 1:
            v.append(dict(kind="copies-differ-after-success", where=where, sizes=[len(x) for x in raws]))
    return dict(viols=v, rc=res.rc)


def rot_job(j):
    """one copy's .tmp silently changes on the medium right after it was flushed: the re-read must notice, the command must fail
    and no configured copy may be replaced by anything but a complete old or complete new version"""
    cfg, saved, cmd, which, versions, seed = j
    L = X.materialize(cfg, saved, seed)
    paths = L.content_paths()
    rule = ";".join("%s.tmp:fsync:0" % paths[i] for i in which)
    res = L.run(cmd[0], *cmd[1:], env={"VP_ROT": rule})
    where = "%s with copy %s rotting after its flush" % (" ".join(cmd), "+".join(str(i) for i in which))
    rotted = [e for e in res.trace if e.call == "ROT"]
    if len(rotted) < len(which):
        # the rot is planted when the copy's own .tmp is fsync'ed.  A copy that is renamed into place without that fsync having
        # happened is the property failing (the atomic-replacement recipe), not a harness problem
        unsynced = [i for i in which if any(e.call == "rename" and e.ret != -1 and e.path == paths[i] + ".tmp" for e in res.trace)
                    and not any(e.call == "fsync" and e.path == paths[i] + ".tmp" for e in res.trace)]
        if unsynced:
            return dict(viols=[dict(kind="copy-renamed-into-place-without-an-fsync-of-its-own", where=where, copies=unsynced, rc=res.rc)], harness=False)
        # ... likewise a copy that was written while the flush step fsync'ed OTHER copies but not this one
        tmps = [p_ + ".tmp" for p_ in paths]
        skipped = [i for i in which if any(e.call in ("write", "pwrite") and e.path == tmps[i] for e in res.trace)
                   and not any(e.call == "fsync" and e.path == tmps[i] for e in res.trace)
                   and any(e.call == "fsync" and e.path in tmps for e in res.trace)]
        if skipped:
            return dict(viols=[dict(kind="copy-written-but-left-out-of-the-fsync-step", where=where, copies=skipped, rc=res.rc)], harness=False)
        return dict(viols=[dict(kind="harness-rot-not-injected", where=where, rc=res.rc)], harness=True)
    v = []
    if res.rc == 0:
        v.append(dict(kind="damaged-new-copy-accepted", where=where))
    for p in paths:
        try:
            data = open(p, "rb").read()
        except FileNotFoundError:
            v.append(dict(kind="content-copy-missing", where=where, copy=os.path.relpath(p, L.root)))
            continue
        if vkey(data) not in versions:
            v.append(dict(kind="content-copy-neither-old-nor-new", where=where, copy=os.path.relpath(p, L.root), size=len(data)))
    if not v:
        # and the user's next command brings every copy to the same complete version
        r2 = L.run("sync")
        raws = {open(p, "rb").read() if os.path.exists(p) else None for p in paths}
        if r2.rc != 0 or len(raws) != 1:
            v.append(dict(kind="copies-differ-after-next-successful-sync" if r2.rc == 0 else "next-sync-fails", where=where, rc=r2.rc))
    return dict(viols=v, harness=False)


def run(ctx):
    tier = ctx.tier
    ctx.set("rule", "part 1: per content shape and command, every single-bit flip, every truncation length, every byte set to "
                    "00/ff (thorough: all 256 values at every tag-like offset), one appended byte; run on an ASan+UBSan build of "
                    "the real binary. part 2: every kill point (before/after/torn) of sync / touch / scrub with 1..7 content "
                    "copies. non-trivial = every mutation differs from the original file / every kill was delivered")
    evals = 0
    build.snapraid("asan")
    for name, cfg, ops in shapes(tier):
        if ctx.out_of_time():
            ctx.cap("deadline before shape " + name)
            break
        with labmod.Lab(cfg, seed=ctx.seed) as L0:
            for op in ops:
                X.apply_op(L0, op)
            saved = L0.save()
            data = L0.content_bytes()
            C.decode(data)
        muts = list(mutations(data, tier))
        ctx.set("content_bytes[%s]" % name, len(data))
        for cmd in commands(tier):
            if ctx.out_of_time():
                ctx.cap("deadline before %s/%s" % (name, cmd[0]))
                break
            chunk = 40
            jobs = [(cfg, saved, cmd, muts[i:i + chunk], ctx.seed) for i in range(0, len(muts), chunk)]
            done = 0
            for j, r in par.pmap(mut_job, jobs, deadline=ctx.deadline):
                done += r["n"]
                evals += r["n"]
                for o in r["outcomes"]:
                    ctx.outcome((cmd[0], o))
                for v in r["viols"]:
                    ctx.violation("C09/load/%s/%s" % (cmd[0], v["kind"]),
                                  "%s: shape %s mutation %r command %s" % (v["kind"], name, v["mutation"], " ".join(cmd)),
                                  dict(part="load", shape=name, cfg=cfg.describe(), ops=ops, cmd=cmd, mutation=v["mutation"], root=saved["root"],
                                       content_hex=v.pop("content_hex", None), violation=v))
            if done < len(muts):
                ctx.cap("%s/%s: deadline (%d of %d mutations)" % (name, cmd[0], done, len(muts)))
            ctx.set("mutations[%s/%s]" % (name, cmd[0]), done)
            for i in range(0, done, max(1, done // 400)):
                ctx.nontrivial((name, cmd[0], muts[i]))
            ctx.cov["distinct_mutations"] = ctx.cov.get("distinct_mutations", 0) + done
        ctx.sample(dict(shape=name, mutation=muts[7], command=commands(tier)[0]))
    # ---- part 2
    for name, cfg, ops, cmd in atomic_scenarios(tier):
        if ctx.out_of_time():
            ctx.cap("deadline before atomic scenario %s/%d copies" % (name, len(cfg.contents)))
            break
        label = "%s/%dcopies" % (name, len(cfg.contents))
        with labmod.Lab(cfg, seed=ctx.seed) as L0:
            for op in ops:
                X.apply_op(L0, op)
            saved = L0.save()
            old = L0.content_bytes()
            versions = {vkey(old)}
            r = L0.run(cmd[0], *cmd[1:])
            if r.rc != 0:
                raise RuntimeError("reference %s failed\n%s" % (cmd, r.text()))
            calls = crash.sc_calls(r.trace)
            # "written beside the old one, flushed, re-read and verified before it atomically replaces the old copy":
            # in the call trace every rename X.tmp -> X must be preceded by an fsync of X.tmp issued after the last write to it
            last_write, last_sync = {}, {}
            for e in calls:
                if e.call == "write":
                    last_write[e.path] = e.k
                elif e.call == "fsync" and e.ret == 0:
                    last_sync[e.path] = e.k
                elif e.call == "rename" and e.path.endswith(".tmp") and any(e.path == p + ".tmp" for p in L0.content_paths()):
                    lw, ls = last_write.get(e.path, -1), last_sync.get(e.path, -1)
                    if lw < 0 or ls < lw:
                        ctx.violation("C09/atomic/%s/rename-without-flush" % cmd[0],
                                      "%s: %s renamed over the content file without an fsync after its last write (write call %d, fsync call %d, rename call %d) (%s)"
                                      % (" ".join(cmd), os.path.relpath(e.path, L0.root), lw, ls, e.k, label),
                                      dict(part="atomic-final", cfg=cfg.describe(), ops=ops, cmd=cmd))
                    last_write.pop(e.path, None)
                    last_sync.pop(e.path, None)
            raws = {open(p, "rb").read() for p in L0.content_paths()}
            if len(raws) != 1:
                ctx.violation("C09/atomic/copies-differ-after-success", "copies differ after successful %s" % (cmd,),
                              dict(part="atomic-final", cfg=cfg.describe(), ops=ops, cmd=cmd))
            # the legitimate versions: the content right after each rename of the first copy
            first_tmp = os.path.relpath(L0.content_paths()[0], L0.root) + ".tmp"
            for e in calls:
                if e.call == "rename" and os.path.relpath(e.path, L0.root) == first_tmp:
                    L0.restore(saved)
                    crash.run_killed(L0, cmd[0], cmd[1:], e.k, "after")
                    versions.add(vkey(L0.content_bytes()))
        # part 3: silent damage of a freshly flushed copy (every non-empty subset of the copies, up to 7 subsets of size 1 and 2)
        n = len(cfg.contents)
        subsets = [(i,) for i in range(n)] + [(i, k) for i in range(n) for k in range(i + 1, n)]
        rjobs = [(cfg, saved, cmd, w, versions, ctx.seed) for w in subsets[:12]]
        for j, r in par.pmap(rot_job, rjobs, deadline=ctx.deadline):
            evals += 1
            if r["harness"]:
                raise RuntimeError("harness problem %r" % r["viols"])
            ctx.nontrivial((label, "rot", j[3]))
            for v in r["viols"]:
                ctx.violation("C09/rot/%s/%s" % (cmd[0], v["kind"]), "%s: %s (%s)" % (v["kind"], v["where"], label),
                              dict(part="rot", cfg=cfg.describe(), ops=ops, cmd=cmd, which=list(j[3]), violation=v))
        ctx.set("rot_cases[%s]" % label, len(rjobs))
        jobs = [(cfg, saved, cmd, k, mode, versions, ctx.seed) for k, mode in crash.kill_points(calls)]
        done = 0
        for j, r in par.pmap(atomic_job, jobs, deadline=ctx.deadline):
            done += 1
            evals += 1
            if r["harness"]:
                raise RuntimeError("harness problem %r" % r["viols"])
            ctx.nontrivial((label, j[3], j[4]))
            for v in r["viols"]:
                ctx.violation("C09/atomic/%s/%s" % (cmd[0], v["kind"]), "%s: %s (%s)" % (v["kind"], v["where"], label),
                              dict(part="atomic", cfg=cfg.describe(), ops=ops, cmd=cmd, k=j[3], mode=j[4], violation=v))
        if done < len(jobs):
            ctx.cap("%s: deadline (%d of %d kill points)" % (label, done, len(jobs)))
        ctx.set("kill_points[%s]" % label, done)
        ctx.set("versions[%s]" % label, len(versions))
    # ---- part 4: configured copies MISSING (every non-empty proper subset of three, the first one included) when a state-writing
    # command starts that has nothing of its own to save: after it ended successfully every configured copy exists again, identical
    import itertools
    cfg = Config(levels=1, ndisks=2, contents=["c0/content", "d1/.content", "c1/content"])
    ops = [("write", "d1", "anchor", 700, 0), ("write", "d2", "anchor", 700, 0), ("write", "d1", "a", 2500, 0), ("cmd", "sync"),
           ("cmd", "scrub", "-p", "full")]
    with labmod.Lab(cfg, seed=ctx.seed) as L0:
        for op in ops:
            r = X.apply_op(L0, op)
            if r is not None and r.rc != 0:
                raise RuntimeError("base failed %r\n%s" % (op, r.text()))
        saved = L0.save()
    mjobs = [(cfg, saved, cmd, miss, ctx.seed) for cmd in (("sync",), ("scrub", "-p", "bad"), ("scrub", "-p", "new"), ("scrub",), ("touch",))
             for n in (1, 2) for miss in itertools.combinations(range(3), n)]
    for j, r in par.pmap(missing_job, mjobs, deadline=ctx.deadline):
        evals += 1
        ctx.nontrivial(("missing-copies", j[2], j[3]))
        for v in r["viols"]:
            ctx.violation("C09/missing/%s/%s" % (j[2][0], v["kind"]), "%s: %s" % (v["kind"], v["where"]),
                          dict(part="missing", cfg=cfg.describe(), ops=ops, cmd=j[2], missing=list(j[3]), violation=v))
    ctx.set("missing_copy_cases", len(mjobs))
    ctx.set("evaluations", evals)
    ctx.assumptions += ["os_abort() of the tool itself (SIGABRT with its own diagnostic) counts as a rejection",
                        "sanitizers: gcc -fsanitize=address,undefined on the whole binary"]


def replay(r):
    cfg = Config.from_dict(r["cfg"])
    with labmod.Lab(cfg) as L0:
        for op in r["ops"]:
            X.apply_op(L0, tuple(op))
        saved = L0.save()
        if r["part"] == "missing":
            out = missing_job((cfg, saved, tuple(r["cmd"]), tuple(r["missing"]), 0))
            for v in out["viols"]:
                print("  ", v)
            return not out["viols"]
        if r["part"] == "load":
            out = mut_job((cfg, saved, tuple(r["cmd"]), [tuple(r["mutation"])], 0, r.get("content_hex"), None))
        elif r["part"] in ("atomic", "rot"):
            old = L0.content_bytes()
            versions = {vkey(old)}
            res = L0.run(r["cmd"][0], *r["cmd"][1:])
            calls = crash.sc_calls(res.trace)
            first_tmp = os.path.relpath(L0.content_paths()[0], L0.root) + ".tmp"
            for e in calls:
                if e.call == "rename" and os.path.relpath(e.path, L0.root) == first_tmp:
                    L0.restore(saved)
                    crash.run_killed(L0, r["cmd"][0], r["cmd"][1:], e.k, "after")
                    versions.add(vkey(L0.content_bytes()))
            if r["part"] == "rot":
                out = rot_job((cfg, saved, tuple(r["cmd"]), tuple(r["which"]), versions, 0))
            else:
                out = atomic_job((cfg, saved, tuple(r["cmd"]), r["k"], r["mode"], versions, 0))
        else:
            return False
    for v in out["viols"]:
        print("  ", v)
    return not out["viols"]
