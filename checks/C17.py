"""C17  Parity split over several files behaves as one parity  (arraymc, twin arrays).

A single-file array and a k-split array are driven through the same history (grow, shrink, forced sync, loss of
one split + fix, removal of an unused trailing split) for EVERY per-split size limit from one block to beyond the
total parity in 512-byte steps.  After every command the concatenation of the splits (cut at their recorded
sizes) must equal the twin's parity byte for byte.
"""
import os
from vp import lab as labmod, explore as X, faults as F, content as C, par, parity as P
from vp.lab import Config

LEVEL = "model_checking"
BUDGET = {"quick": 240, "thorough": 1800}

HISTORY = [
    [("write", "d1", "anchor", 700, 0), ("write", "d2", "anchor", 700, 0), ("write", "d1", "A", 3000, 0)],
    [("write", "d2", "B", 5000, 0)],
    [("write", "d1", "Cc", 4000, 0)],
    [("rm", "d1", "Cc"), ("rm", "d2", "B")],
    [("write", "d2", "D", 6000, 0), ("write", "d1", "E", 1025, 0)],
    "sync -F",
    "lose-split",
    [("rm", "d2", "D"), ("rm", "d1", "E"), ("rm", "d1", "A")],
    "drop-trailing",
    [("write", "d1", "F", 7000, 0)],
]


def split_sizes(c):
    return {l: ([s[2] for s in p["splits"]] if p["splits"] is not None else None) for l, p in c.parity.items()}


def compare(Ls, Lt, where, prev_sizes):
    """oracle after a successful command in both arrays"""
    v = []
    cs, ct = Ls.content(), Lt.content()
    bs = cs.block_size
    if cs.blockmax != ct.blockmax:
        v.append(dict(kind="blockmax-differs-from-twin", where=where, split=cs.blockmax, twin=ct.blockmax))
        return v, split_sizes(cs)
    need = cs.blockmax * bs
    sizes = split_sizes(cs)
    for l in sorted(cs.parity):
        a = P.logical_parity(Ls, cs, l)
        b = Lt.parity_stream(l)
        if len(a) < need:
            v.append(dict(kind="recorded-sizes-too-small", where=where, level=l, have=len(a), need=need))
        # compare only used stripes' worth (both truncated to need)
        if a[:need] != b[:need]:
            pos = next(i for i in range(0, need, bs) if a[i:i + bs] != b[i:i + bs]) // bs
            v.append(dict(kind="concatenation-differs-from-twin", where=where, level=l, first_stripe=pos))
        elif len(a) != len(b):
            # same data, same parity: also the same length (a split beyond the end of the parity is empty and recorded as empty)
            v.append(dict(kind="concatenation-length-differs-from-twin", where=where, level=l, splits=len(a), twin=len(b), recorded=sizes[l]))
        sz = sizes[l]
        if sz is not None:
            for i, s in enumerate(sz):
                if s % bs:
                    v.append(dict(kind="split-size-not-block-multiple", where=where, level=l, split=i, size=s))
            # files at least as large as recorded
            for i, pth in enumerate(Ls.parity_paths(l)):
                if i < len(sz) and sz[i] and (not os.path.exists(pth) or os.path.getsize(pth) < sz[i]):
                    v.append(dict(kind="split-file-smaller-than-recorded", where=where, level=l, split=i))
            # growth rule: a split followed by a non-empty split is fixed
            if prev_sizes and prev_sizes.get(l) and sum(sz) > sum(prev_sizes[l]):
                old = prev_sizes[l]
                last_used = max([i for i, s in enumerate(old) if s] or [0])
                for i in range(min(last_used, len(sz))):
                    if i < len(old) and sz[i] != old[i]:
                        v.append(dict(kind="non-last-split-changed-size-while-growing", where=where, level=l, split=i,
                                      old=old, new=sz))
                        break
            # no stripe straddles: implied by block multiples; positions read back from the same place: c06 below
    for o in X.c06(Ls, where):
        o["kind"] = "split-" + o["kind"]
        v.append(o)
    return v, sizes


def job(j):
    levels, k, limit, seed = j[:4]
    limit2 = j[4] if len(j) > 4 and j[4] else limit
    only = j[5] if len(j) > 5 else None        # asymmetric configuration: only this level is split, the others are single files
    cfg_s = Config(levels=levels, ndisks=2, splits={l: (k if only is None or l == only else 1) for l in range(levels)}, parity_limit=limit,
                   splitdirs=True)        # every split file on its own "parity disk" (directory)
    cfg_t = Config(levels=levels, ndisks=2)
    v = []
    steps = 0
    outcome = []
    with labmod.Lab(cfg_s, seed=seed) as Ls, labmod.Lab(cfg_t, seed=seed) as Lt:
        prev = None
        for si, step in enumerate(HISTORY):
            if si == 2 and limit2 != limit:
                # more room appears on the parity disks: from now on a larger per-file limit applies
                Ls.cfg = Ls.cfg.clone(parity_limit=limit2)
            where = "limit=%d->%d k=%d levels=%d%s step %d %s" % (limit, limit2, k, levels, "" if only is None else " (only level %d split)" % only,
                                                                 si, step if isinstance(step, str) else "files+sync")
            if isinstance(step, list):
                for op in step:
                    X.apply_op(Ls, op)
                    X.apply_op(Lt, op)
                rs, rt = Ls.run("sync"), Lt.run("sync")
            elif step == "sync -F":
                rs, rt = Ls.run("sync", "-F"), Lt.run("sync", "-F")
            elif step == "lose-split":
                # every non-empty split file of every level lost in turn (alone, and together with a data disk when a second
                # level exists): fix must rebuild it in place - same size, same bytes - as dictated by the recorded split sizes
                c = Ls.content()
                S0 = Ls.save()
                want0 = X.data_tree(Ls)
                paths0 = {l: Ls.parity_paths(l) for l in range(levels)}
                bytes0 = {l: [labmod._slurp(p_) if os.path.exists(p_) else b"" for p_ in paths0[l]] for l in range(levels)}
                rec = split_sizes(c)
                for l in range(levels):
                    nfiles = len(paths0[l])
                    recl = rec[l] if rec[l] is not None else [len(b_) for b_ in bytes0[l]]
                    for idx in range(nfiles):
                        if idx >= len(recl) or not recl[idx] or nfiles < 2:
                            continue
                        for with_disk in ((False, True) if levels >= 2 else (False,)):
                            Ls.restore(S0)
                            os.unlink(paths0[l][idx])
                            if with_disk:
                                F.lose_disk(Ls, "d1")
                            rf = Ls.run("fix")
                            w3 = where + " | split %d of level %d lost%s" % (idx, l, " with disk d1" if with_disk else "")
                            steps += 1
                            if rf.rc != 0:
                                v.append(dict(kind="fix-fails-after-split-lost", where=w3, rc=rf.rc, out=rf.text()[-300:]))
                                continue
                            if X.tree_equal(Ls, want0):
                                v.append(dict(kind="data-not-restored-after-split-lost", where=w3))
                            for l2 in range(levels):
                                for i2, p_ in enumerate(paths0[l2]):
                                    now = labmod._slurp(p_) if os.path.exists(p_) else b""
                                    r2 = rec[l2][i2] if rec[l2] is not None and i2 < len(rec[l2]) else len(bytes0[l2][i2])
                                    if now[:r2] != bytes0[l2][i2][:r2]:
                                        v.append(dict(kind="split-not-rebuilt-in-place", where=w3, level=l2, split=i2,
                                                      size_now=len(now), recorded=r2))
                                    elif len(now) != len(bytes0[l2][i2]):
                                        # a command that does not change the array size leaves every split file at its length
                                        v.append(dict(kind="split-file-length-changed-by-fix", where=w3, level=l2, split=i2,
                                                      size_now=len(now), size_before=len(bytes0[l2][i2]), recorded=r2))
                            chk = Ls.run("check")
                            if chk.rc != 0:
                                v.append(dict(kind="check-fails-after-split-rebuilt", where=w3, out=chk.text()[-300:]))
                # a fixed-size (non-last) split lost, and fix runs while its place has LESS room than when it was written (a fuller
                # replacement disk): the recorded sizes still dictate the mapping - either a refusal, or a rebuild in place; the
                # surviving split files keep their recorded bytes either way, and once the room is back a plain fix restores all
                for l in range(levels):
                    recl = rec[l] if rec[l] is not None else None
                    if recl is None or len(paths0[l]) < 2:
                        continue
                    lastused = max([i for i, s_ in enumerate(recl) if s_] or [0])
                    for idx in range(lastused):
                        small = [lm for lm in range(512, limit, 512) if c.block_size <= plimit(lm, idx, l) < recl[idx]]
                        if not recl[idx] or not small:
                            continue
                        Ls.restore(S0)
                        os.unlink(paths0[l][idx])
                        cfg_keep = Ls.cfg
                        Ls.cfg = Ls.cfg.clone(parity_limit=small[-1])
                        rf = Ls.run("fix")
                        Ls.cfg = cfg_keep
                        w5 = where + " | split %d of level %d lost, fix with less room (limit %d)" % (idx, l, small[-1])
                        steps += 1
                        if rf.signal is not None:
                            v.append(dict(kind="died-with-signal", where=w5, signal=rf.signal))
                        for l2 in range(levels):
                            for i2, p_ in enumerate(paths0[l2]):
                                if (l2, i2) == (l, idx):
                                    continue
                                now = labmod._slurp(p_) if os.path.exists(p_) else b""
                                r2 = rec[l2][i2] if rec[l2] is not None and i2 < len(rec[l2]) else len(bytes0[l2][i2])
                                if now[:r2] != bytes0[l2][i2][:r2] or len(now) != len(bytes0[l2][i2]):
                                    v.append(dict(kind="surviving-split-changed-by-fix-with-less-room", where=w5, level=l2, split=i2,
                                                  size_now=len(now), size_before=len(bytes0[l2][i2]), recorded=r2, fix_rc=rf.rc))
                        if rf.rc == 0:
                            chk = Ls.run("check")
                            if chk.rc != 0:
                                v.append(dict(kind="fix-with-less-room-reports-success-but-check-fails", where=w5, out=chk.text()[-300:]))
                        rf2 = Ls.run("fix")
                        chk = Ls.run("check")
                        now = labmod._slurp(paths0[l][idx]) if os.path.exists(paths0[l][idx]) else b""
                        if rf2.rc != 0 or chk.rc != 0 or now[:recl[idx]] != bytes0[l][idx][:recl[idx]]:
                            v.append(dict(kind="split-not-rebuilt-once-the-room-is-back", where=w5, rc=(rf2.rc, chk.rc), size_now=len(now), recorded=recl[idx]))
                # a fixed-size (non-last) split loses its TAIL (one block): commands that only read the parity (check) still map every
                # position through the recorded sizes - exactly the stripe of the lost block is reported for that level, nothing in
                # the later splits - and a plain fix puts the block back
                for l in range(levels):
                    recl = rec[l] if rec[l] is not None else None
                    if recl is None or len(paths0[l]) < 2:
                        continue
                    lastused = max([i for i, s_ in enumerate(recl) if s_] or [0])
                    for idx in range(lastused):
                        if recl[idx] < c.block_size:
                            continue
                        Ls.restore(S0)
                        with open(paths0[l][idx], "r+b") as fh:
                            fh.truncate(recl[idx] - c.block_size)
                        lost_pos = sum(recl[:idx + 1]) // c.block_size - 1
                        rc_ = Ls.run("check")
                        w6 = where + " | split %d of level %d lost its last block (stripe %d), check" % (idx, l, lost_pos)
                        steps += 1
                        names = {n: i for i, n in enumerate(labmod.LEVEL_NAMES)}
                        got = set()
                        for t in rc_.tags.get("parity_error"):
                            if len(t) >= 3 and t[1].isdigit():
                                got.add((int(t[1]), names.get(t[2].decode(), t[2].decode())))
                        derr = [t for t in rc_.tags.get("error") if len(t) >= 4 and t[1].isdigit()]
                        if got != {(lost_pos, l)} or derr or rc_.rc == 0:
                            v.append(dict(kind="split-tail-lost-check-reports-other-stripes", where=w6, want=[(lost_pos, l)], got=sorted(got)[:8],
                                          data_errors=len(derr), rc=rc_.rc))
                        rf = Ls.run("fix")
                        chk = Ls.run("check")
                        now = labmod._slurp(paths0[l][idx])
                        if rf.rc != 0 or chk.rc != 0 or now[:recl[idx]] != bytes0[l][idx][:recl[idx]]:
                            v.append(dict(kind="split-tail-not-rebuilt", where=w6, rc=(rf.rc, chk.rc), size_now=len(now), recorded=recl[idx]))
                # a used split lost (each in turn, the LAST configured one included) and the user runs sync instead of fix: the
                # parity-size interlock refuses - no file re-created empty and quietly taken for parity - then fix rebuilds it
                for l in range(levels):
                    recl = rec[l] if rec[l] is not None else None
                    if recl is None or len(paths0[l]) < 2:
                        continue
                    for idx in range(len(paths0[l])):
                        if idx >= len(recl) or not recl[idx]:
                            continue
                        Ls.restore(S0)
                        os.unlink(paths0[l][idx])
                        rs_ = Ls.run("sync")
                        w7 = where + " | split %d of %d of level %d lost, sync" % (idx, len(paths0[l]), l)
                        steps += 1
                        if rs_.rc == 0:
                            v.append(dict(kind="sync-accepts-a-lost-split", where=w7, out=rs_.text()[-300:]))
                            for o in X.c06(Ls, w7):
                                o["kind"] = "after-accepted-sync-" + o["kind"]
                                v.append(o)
                            continue
                        rf = Ls.run("fix")
                        chk = Ls.run("check")
                        if rf.rc != 0 or chk.rc != 0:
                            v.append(dict(kind="split-not-rebuilt-after-refused-sync", where=w7, rc=(rf.rc, chk.rc)))
                # the whole parity disk (directory) holding one split is gone, together with a data disk: with a second level fix
                # --force-device must drop the dead level and rebuild the data from the other one; once the directory is back a plain
                # fix re-creates the split in place
                if levels >= 2:
                    for l in range(levels):
                        recl = rec[l] if rec[l] is not None else [len(b_) for b_ in bytes0[l]]
                        for idx in range(len(paths0[l])):
                            if len(paths0[l]) < 2 or idx >= len(recl) or not recl[idx]:
                                continue
                            Ls.restore(S0)
                            import shutil
                            pdir = os.path.dirname(paths0[l][idx])
                            shutil.rmtree(pdir)
                            F.lose_disk(Ls, "d1")
                            rf = Ls.run("fix", "--force-device")
                            w4 = where + " | parity disk of split %d of level %d gone with data disk d1, fix --force-device" % (idx, l)
                            steps += 1
                            if rf.rc != 0 or X.tree_equal(Ls, want0):
                                v.append(dict(kind="data-not-restored-with-a-parity-disk-gone", where=w4, rc=rf.rc, out=rf.text()[-300:]))
                                continue
                            os.makedirs(pdir, exist_ok=True)
                            rf2 = Ls.run("fix")
                            chk = Ls.run("check")
                            if rf2.rc != 0 or chk.rc != 0:
                                v.append(dict(kind="parity-not-rebuilt-after-its-disk-came-back", where=w4, rc=(rf2.rc, chk.rc)))
                Ls.restore(S0)
                sz = split_sizes(c)[0] or [len(b_) for b_ in bytes0[0]]
                idx = max([i for i, s in enumerate(sz) if s] or [0])
                want = X.data_tree(Ls)
                os.unlink(Ls.parity_paths(0)[idx])
                rs = Ls.run("fix")
                rt = Lt.run("status")
                if X.tree_equal(Ls, want):
                    v.append(dict(kind="fix-of-lost-split-touched-data", where=where))
                chk = Ls.run("check")
                if chk.rc != 0:
                    v.append(dict(kind="check-fails-after-split-rebuilt", where=where, out=chk.text()[-300:]))
                # and a data disk lost with split parity: C01 for split parity
                S = Ls.save()
                F.lose_disk(Ls, "d1")
                rf = Ls.run("fix")
                if rf.rc != 0 or X.tree_equal(Ls, want):
                    v.append(dict(kind="disk-not-recoverable-from-split-parity", where=where, rc=rf.rc))
                Ls.restore(S)
            elif step == "drop-trailing":
                c = Ls.content()
                newsplits = {}
                for l, sz in split_sizes(c).items():
                    if sz is None:
                        sz = [os.path.getsize(p_) if os.path.exists(p_) else 0 for p_ in Ls.parity_paths(l)]
                    used = max([i + 1 for i, s in enumerate(sz) if s] or [1])
                    newsplits[l] = used
                Ls.cfg = Ls.cfg.clone(splits=newsplits)
                Ls.write_conf()
                rs, rt = Ls.run("sync", "--force-zero"), Lt.run("sync", "--force-zero")
            steps += 1
            outcome.append(rs.rc)
            if rs.rc != 0:
                # a limit too small for the data must give a clean refusal
                txt = rs.text()
                if rs.signal is not None:
                    v.append(dict(kind="died-with-signal", where=where, signal=rs.signal))
                for o in X.c06(Ls, where):
                    o["kind"] = "after-refusal-" + o["kind"]
                    v.append(o)
                if rt.rc == 0 and "parity" not in txt.lower():
                    v.append(dict(kind="refusal-without-parity-diagnostic", where=where, out=txt[-300:]))
                break
            if rt.rc != 0:
                v.append(dict(kind="twin-failed", where=where, out=rt.text()[-300:]))
                break
            vv, prev = compare(Ls, Lt, where, prev)
            v += vv
    return dict(viols=v, steps=steps, outcome=tuple(outcome))


def plimit(size, split, level):
    """the tool's pseudo random per-file limit for --test-parity-limit (cmdline/parity.c PARITY_LIMIT)"""
    return size + (123562341 + split * 634542351 + level * 983491341) % size


def asym_limits(levels, only, n, bs=1024, peak=8, at_loss=7):
    """limits for which, with only level `only` split, the single files of the other levels hold the whole history (peak
    blocks) while the first split of level `only` is full before the split-loss step (so a second split is in use there);
    one limit per distinct first-split capacity, n at most per capacity"""
    out, per = [], {}
    for lim in range(bs, 16 * bs):
        cap = [plimit(lim, 0, l) // bs for l in range(levels)]
        if any(cap[l] < peak for l in range(levels) if l != only):
            continue
        c0, c1 = cap[only], plimit(lim, 1, only) // bs
        if 2 <= c0 < at_loss and c0 + c1 >= peak and per.get(c0, 0) < n:
            per[c0] = per.get(c0, 0) + 1
            out.append(lim)
    return out


def run(ctx):
    tier = ctx.tier
    ks = [2, 3] if tier == "quick" else [2, 3, 4, 8]
    levels = [1, 2] if tier == "quick" else [1, 2, 3]
    limits = list(range(1024, 15 * 1024 + 1, 512))
    ctx.set("rule", "twin arrays (single parity file vs k splits, k in %r, levels %r) through a 10-step history (grow x3, shrink, "
                    "grow, sync -F, loss of a split + fix + loss of a disk + fix, shrink, removal of unused trailing splits, grow) "
                    "for EVERY --test-parity-limit from 1024 to 15360 in 512-byte steps; compared after every command. "
                    "non-trivial = at least two steps completed with >=2 non-empty splits or a refusal" % (ks, levels))
    jobs = [(l, k, lim, ctx.seed) for l in levels for k in ks for lim in limits]
    # the limit grows after the second step (space freed on a parity disk): x4 and +1536
    jobs += [(l, k, lim, ctx.seed, lim2) for l in levels for k in ks for lim in limits[:13] for lim2 in (lim * 4, lim + 1536)]
    # asymmetric configurations: only one of the levels is split
    jobs += [(l, k, lim, ctx.seed, 0, only) for l in levels if l >= 2 for k in ks[:2] for only in range(l)
             for lim in asym_limits(l, only, 1 if tier == "quick" else 4)]
    evals = 0
    done = 0
    for j, r in par.pmap(job, jobs, deadline=ctx.deadline):
        done += 1
        evals += r["steps"]
        ctx.nontrivial(j[:3] + j[4:])
        ctx.outcome((r["steps"], r["outcome"][-1] if r["outcome"] else None))
        for v in r["viols"]:
            ctx.violation("C17/%s" % v["kind"], "%s: %s" % (v["kind"], v["where"]),
                          dict(levels=j[0], k=j[1], limit=j[2], limit2=j[4] if len(j) > 4 and j[4] else j[2], only=j[5] if len(j) > 5 else None, violation=v))
        if done in (3, 40):
            ctx.sample(dict(levels=j[0], splits=j[1], parity_limit=j[2], steps_completed=r["steps"], exits=r["outcome"]))
    if done < len(jobs):
        ctx.cap("deadline (%d of %d (levels,k,limit) tuples)" % (done, len(jobs)))
    ctx.set("evaluations", evals)
    ctx.set("states", evals)
    ctx.set("transitions", evals)
    ctx.set("traces_validated_against_impl", evals)
    ctx.set("tuples", done)
    ctx.assumptions += ["the per-split limit is the tool's own test seam --test-parity-limit (limit = N + f(split, level) mod N)"]


def replay(r):
    out = job((r["levels"], r["k"], r["limit"], 0, r.get("limit2", r["limit"]), r.get("only")))
    for v in out["viols"]:
        print("  ", v)
    return not out["viols"]
