"""C04  Every silent corruption of synced data or parity is detected and located (fault enumeration).

For each configuration one clean synced array; EVERY block of every file and EVERY used parity block of
every level x corruption shapes (size and mtime preserved), singly (and in pairs in different stripes in the
thorough tier), then each verifying command.  Oracle: the set of error / parity_error tags equals the set of
damaged (stripe, disk|level) the command covers; failing status; after a scrub `status` marks exactly the
damaged covered stripes bad.  On the undamaged array: no error, nothing bad, exit 0.
"""
import itertools, os
from vp import lab as labmod, explore as X, faults as F, content as C, par, scrubplan
from vp.lab import Config

LEVEL = "fault_enumeration"
BUDGET = {"quick": 240, "thorough": 2000}
DAY = 86400


def configs(tier):
    cs = [Config(levels=1, ndisks=2), Config(levels=2, ndisks=3, hashkind="spooky2", hashsize=8, splits={0: 2, 1: 2}, parity_limit=6144),
          Config(levels=3, z=True, ndisks=2, tag="rehash"),
          Config(levels=1, ndisks=2, tag="scrubbed"),
          Config(levels=2, ndisks=2, tag="partial"),
          Config(levels=1, ndisks=2, tag="gap")]
    if tier == "thorough":
        cs += [Config(levels=6, ndisks=2), Config(levels=3, ndisks=4, blocksize=2), Config(levels=2, ndisks=3, tag="hole")]
    return cs


def init_ops(cfg):
    if cfg.tag == "gap":
        # a range of stripes in the MIDDLE of the array that no disk uses any more (files deleted on every disk, the deletion synced),
        # after everything had been scrubbed once: stripes with a check time on both sides of stripes without one
        return [("write", "d1", "g0", 1024, 0), ("write", "d1", "g1", 2048, 0), ("write", "d1", "g2", 1024, 0),
                ("write", "d2", "h0", 1000, 0), ("write", "d2", "h1", 2000, 0), ("write", "d2", "h2", 2500, 0),
                ("cmd", "sync"), ("cmd", "scrub", "-p", "full"), ("rm", "d1", "g1"), ("rm", "d2", "h1"), ("cmd", "sync")]
    ops = [("write", d, "anchor", 700, 0) for d in cfg.disknames]
    ops += [("write", "d1", "a", 2500, 0), ("write", "d1", "sp ace", 1, 0), ("write", "d1", "dir/co:lon", 1024, 0),
            ("write", "d2", "b/c", 1025, 0), ("write", "d2", "five", 9000, 0)]
    if cfg.ndisks >= 3:
        ops += [("write", "d3", "dir/c", 3000, 0)]
    ops.append(("cmd", "sync"))
    if cfg.tag == "rehash":
        # the migration stays in progress; the new file goes to the longer disk so that the shorter disk ends inside the
        # still-to-be-converted range and is followed by stripes where it has no block
        ops += [("cmd", "rehash"), ("write", "d2", "late", 1500, 0), ("cmd", "sync")]
    if cfg.tag == "scrubbed":
        # everything scrubbed, then one small file synced: '-p new' selects a single stripe
        ops += [("cmd", "scrub", "-p", "full"), ("write", "d1", "late", 1000, 0), ("cmd", "sync")]
    if cfg.tag == "partial":
        # a new file on the FIRST disk recorded but not synced (range-limited sync): its stripes hold an unsynced block on the lower
        # disk and synced blocks of 'five' on the higher disk
        ops += [("write", "d1", "newf", 3000, 0), ("cmd", "sync", "-B", "1"),
                # ... and a synced multi-block file legitimately REWRITTEN since (new bytes, new time-stamp, not synced): none of its
                # blocks is a silent error, whatever block of it a scrub meets first
                ("write", "d1", "a", 2500, 3)]
    if cfg.tag == "hole":
        ops += [("emptydisk", "d2"), ("cmd", "sync", "-E"), ("dropdisk", "d2"), ("write", "d3", "late", 2500, 0), ("cmd", "sync")]
    return ops


# command, needs clock advance, scrub plan (for coverage), covers parity
COMMANDS = [
    (("check", "-a"), 0, "all", False),
    (("check",), 0, "all", True),
    (("scrub", "-p", "full"), 0, "full", True),
    (("scrub", "-p", "new"), 0, "new", True),
    (("scrub", "-p", "100"), 11 * DAY, "all-aged", True),
    (("scrub", "-p", "50", "-o", "0"), 0, "half", True),
    (("scrub", "-p", "100", "-o", "0"), 0, "all", True),        # the whole array whatever its age
    (("scrub", "-p", "bad"), 0, "bad-after-mark", True),
]
SHAPES_DATA = ["flip0", "fliplast", "whole", "zero"]
SHAPES_PARITY = ["flip0", "whole"]


def changed_since_sync(L, c):
    """(disk, sub) of recorded files whose size or time-stamp on disk differs from the record (changed by the user, not damage)"""
    out = set()
    for d in c.disks.values():
        for f in d.files:
            try:
                st = os.lstat(os.path.join(L.p(d.name.decode()).encode(), f.sub))
            except OSError:
                continue
            ns = f.mtime_nsec if f.mtime_nsec is not None else st.st_mtime_ns % 10**9
            if st.st_size != f.size or st.st_mtime_ns != f.mtime_sec * 10**9 + ns:
                out.add((d.name, f.sub))
    return out


def damage_list(cfg, c, changed=()):
    """every (kind, where, pos) single damage"""
    out = []
    for d in c.disks.values():
        for f in d.files:
            if (d.name, f.sub) in changed:
                continue            # a file the user rewrote is not a synced file any more
            for i, (st, pos, h) in enumerate(f.blocks):
                if st == C.BLK:     # the statement speaks of synced blocks
                    out.append(("data", d.name.decode(), pos))
    used = F.used_stripes(c)
    unsynced = {pos for d in c.disks.values() for f in d.files for st, pos, h in f.blocks if st != C.BLK}
    unsynced |= {pos for d in c.disks.values() for pos in d.deleted}
    unsynced |= {pos for d in c.disks.values() for f in d.files if (d.name, f.sub) in changed for st, pos, h in f.blocks}
    for pos in sorted(used):
        if pos in unsynced:
            continue                # the parity of a stripe with pending blocks is not yet defined: nothing to detect there
        for l in sorted(c.parity):
            out.append(("parity", l, pos))
    return out


def apply_damage(L, c, dmg, shape):
    if dmg[0] == "data":
        return F.damage_data_block(L, c, dmg[1], dmg[2], shape)
    return F.damage_parity_block(L, c, dmg[1], dmg[2], shape)


def error_sets(res, cfg):
    data, parity = set(), set()
    for t in res.tags.get("error"):
        if len(t) >= 4 and t[1].isdigit():
            data.add((int(t[1]), t[2].decode()))
    for t in res.tags.get("parity_error"):
        if len(t) >= 3 and t[1].isdigit():
            name = t[2].decode()
            names = {n: i for i, n in enumerate(labmod.LEVEL_NAMES)}
            names["z-parity"] = 2
            lvl = names.get(name, name)
            parity.add((int(t[1]), lvl))
    return data, parity


def bad_set(L):
    r = L.run("status", "-G", bracket=False)
    bad = set()
    for t in r.tags.get("block"):
        if len(t) >= 6 and t[5] == b"bad":
            bad.add(int(t[1]))
    hb = r.tags.get("summary", "has_bad")
    return bad, (int(hb[0][2]) if hb else None), r


L_root_placeholder = "{root}"


def job(j):
    cfg, saved, dmgs, shape, cmdspec, seed = j
    cmd, adv, plan, covers_parity = cmdspec[:4]
    # 5th element "short": every pread of every file under the lab answers short (half of the bytes asked for): an ordinary answer of
    # the OS that must change nothing in the verdicts
    env = {"VP_FAIL": "%s/*:pread:0+:-1" % L_root_placeholder} if len(cmdspec) > 4 and cmdspec[4] == "short" else None
    L = X.materialize(cfg, saved, seed)
    cfg = L.cfg
    if env:
        env = {"VP_FAIL": env["VP_FAIL"].replace(L_root_placeholder, L.root)}
    c = L.content()
    viols = []
    where = repr((dmgs, shape, cmd) + (("short-reads",) if env else ()))
    for dmg in dmgs:
        apply_damage(L, c, dmg, shape if dmg[0] == "data" or shape in SHAPES_PARITY else "whole")
    want_data = {(d[2], d[1]) for d in dmgs if d[0] == "data"}
    want_par = {(d[2], d[1]) for d in dmgs if d[0] == "parity"}
    L.time += adv
    if plan == "bad-after-mark":
        # a marking scrub first (its own verdict is checked by the 'full' command entry), then -p bad
        m = L.run("scrub", "-p", "full")
        c = L.content()
    res = L.run(cmd[0], *cmd[1:], env=env)
    got_data, got_par = error_sets(res, cfg)
    # stripes with pending (not yet synced) blocks: their parity legitimately differs from the data now on disk and scrub / check say
    # so (an error that is neither silent nor marked); the statement is about the synced blocks and the fully synced stripes
    pending = {pos for d in c.disks.values() for f in d.files for st, pos, h in f.blocks if st != C.BLK}
    pending |= {pos for d in c.disks.values() for pos in d.deleted}
    changed = changed_since_sync(L, c)
    pending |= {pos for d in c.disks.values() for f in d.files if (d.name, f.sub) in changed for st, pos, h in f.blocks}
    got_par = {x for x in got_par if x[0] not in pending}
    # the differences of a rewritten file are reported too (as file errors): not part of the judged set, but never a bad mark
    chg_blocks = {(pos, d.name.decode()) for d in c.disks.values() for f in d.files if (d.name, f.sub) in changed for st, pos, h in f.blocks}
    got_data = got_data - chg_blocks
    # coverage
    info = c.info
    stripes = {d[2] for d in dmgs}
    if plan in ("all", "full", "all-aged"):
        covered = set(stripes)
    elif plan == "new":
        covered = {p for p in stripes if info[p] is not None and (info[p][3] or info[p][1])}
    elif plan == "bad-after-mark":
        covered = {p for p in stripes if info[p] is not None and info[p][1]}
        if covered != stripes:
            viols.append(dict(kind="marking-scrub-did-not-mark", where=where, marked=sorted(covered)))
    elif plan == "half":
        covered = None      # decided from what the run read: use the refreshed info afterwards
    else:
        covered = set(stripes)
    if covered is None:
        # the half plan: a stripe was verified iff its error was reported or its time was refreshed
        c2 = L.content()
        covered = set()
        for p in stripes:
            i2 = c2.info[p]
            if (i2 is not None and i2[1]) or i2 != info[p]:
                covered.add(p)
        verified_all = {p for p in range(len(info)) if info[p] is not None and
                        (c2.info[p] != info[p])}
        for msg in scrubplan.check_percentage(info, verified_all, 50, L.time, 0, c.blockmax, lower_bound=False):
            viols.append(dict(kind="plan-violated", where=where, msg=msg))
    exp_data = {x for x in want_data if x[0] in covered}
    exp_par = {x for x in want_par if x[0] in covered} if covers_parity else set()
    # scrub/check do not compare parity of a stripe whose data failed (by design); same-stripe pairs are not generated
    if got_data != exp_data:
        viols.append(dict(kind="data-error-set", where=where, want=sorted(exp_data), got=sorted(got_data)))
    if got_par != exp_par:
        viols.append(dict(kind="parity-error-set", where=where, want=sorted(exp_par), got=sorted(got_par)))
    anything = bool(exp_data or exp_par)
    if anything and res.rc == 0:
        viols.append(dict(kind="exit-0-with-damage", where=where))
    if not anything and res.rc != 0 and not pending:
        viols.append(dict(kind="failing-exit-without-covered-damage", where=where, rc=res.rc, out=res.text()[-300:]))
    if cmd[0] == "scrub":
        bad, hasbad, st = bad_set(L)
        exp_bad = {x[0] for x in exp_data} | {x[0] for x in exp_par}
        if plan == "bad-after-mark":
            exp_bad = set(stripes)
        if bad != exp_bad:
            viols.append(dict(kind="bad-marks", where=where, want=sorted(exp_bad), got=sorted(bad)))
        if hasbad is not None and hasbad != len(bad):
            viols.append(dict(kind="status-has_bad-disagrees", where=where, has_bad=hasbad, listed=len(bad)))
    else:
        # check never writes: the C12 side of it
        if any(L.p(p) in L.content_paths() for p in res.changed()):
            viols.append(dict(kind="check-modified-content", where=where))
    return dict(viols=viols, rc=res.rc, nerr=len(got_data) + len(got_par))


def run(ctx):
    tier = ctx.tier
    ctx.set("rule", "per configuration: every block of every file x shapes %r and every used parity block of every level x "
                    "shapes %r (size/mtime preserved) x commands %r; thorough adds all pairs in different stripes (shape "
                    "'whole') for check and scrub -p full; plus the undamaged array under every command. non-trivial = the "
                    "command reported >=1 error tag" % (SHAPES_DATA, SHAPES_PARITY, [c[0] for c in COMMANDS]))
    evals = 0
    for cfg in configs(tier):
        if ctx.out_of_time():
            ctx.cap("deadline before configuration %s" % cfg.short())
            break
        with labmod.Lab(cfg, seed=ctx.seed) as L0:
            for op in init_ops(cfg):
                r = X.apply_op(L0, op)
                if r is not None and r.rc != 0:
                    raise RuntimeError("init failed: %r\n%s" % (op, r.text()))
                if op[0] == "cmd":
                    # the shared oracle after every command of the preparation (parity of synced stripes, and the books: `rehash`
                    # must leave check times, bad marks and never-scrubbed marks alone - plan 'new' and 'bad' depend on them)
                    for o in X.c06(L0, " ".join(map(str, op))):
                        ctx.violation("C04/prepare/%s" % o["kind"], "%s in %s after %s" % (o["kind"], cfg.short(), o.get("where")),
                                      dict(cfg=cfg.describe(), prepare=True, violation=o))
            saved = L0.save()
            c = L0.content()
            cfgx = L0.cfg
            changed0 = changed_since_sync(L0, c)
        dl = damage_list(cfgx, c, changed0)
        jobs = []
        for cmdspec in COMMANDS:
            jobs.append((cfgx, saved, (), "whole", cmdspec, ctx.seed))      # undamaged
            for dmg in dl:
                for shape in (SHAPES_DATA if dmg[0] == "data" else SHAPES_PARITY):
                    if dmg[0] == "parity" and not cmdspec[3]:
                        shape_ok = True     # audit-only must stay silent on parity damage
                    jobs.append((cfgx, saved, (dmg,), shape, cmdspec, ctx.seed))
        # the same under short reads (undamaged array and every single damage of the first shape; full check and full scrub)
        for cmdspec in (COMMANDS[1], COMMANDS[2]):
            sc = cmdspec + ("short",)
            jobs.append((cfgx, saved, (), "whole", sc, ctx.seed))
            for dmg in dl:
                jobs.append((cfgx, saved, (dmg,), "flip0", sc, ctx.seed))
        # two (thorough: every subset of >= 2) parity levels damaged in the SAME stripe, the data intact: each level is named
        pl = {}
        for dmg in dl:
            if dmg[0] == "parity":
                pl.setdefault(dmg[2], []).append(dmg)
        for pos, ds in sorted(pl.items()):
            for n in range(2, len(ds) + 1):
                for sub in itertools.combinations(ds, n):
                    if tier == "quick" and n > 2 and n < len(ds):
                        continue
                    for cmdspec in (COMMANDS[1], COMMANDS[2]):
                        jobs.append((cfgx, saved, tuple(sub), "whole", cmdspec, ctx.seed))
        if tier == "thorough":
            for a, b in itertools.combinations(dl, 2):
                if a[2] == b[2]:
                    continue
                for cmdspec in (COMMANDS[1], COMMANDS[2]):
                    jobs.append((cfgx, saved, (a, b), "whole", cmdspec, ctx.seed))
        done = 0
        for j, r in par.pmap(job, jobs, deadline=ctx.deadline, chunksize=4):
            done += 1
            evals += 1
            dmgs, shape, cmdspec = j[2], j[3], j[4]
            ctx.outcome((" ".join(cmdspec[0]), len(dmgs), r["rc"]))
            if r["nerr"]:
                ctx.nontrivial((cfg.short(), dmgs, shape, cmdspec[0]))
            for v in r["viols"]:
                kind = "none" if not dmgs else "+".join(sorted({d[0] for d in dmgs}))
                ctx.violation("C04/%s/%s/%s" % (cmdspec[0][0] + ("-a" if "-a" in cmdspec[0] else ""), kind, v["kind"]),
                              "%s in %s: damage %r shape %s command %r" % (v["kind"], cfg.short(), dmgs, shape, cmdspec[0]),
                              dict(cfg=cfg.describe(), damages=dmgs, shape=shape, command=cmdspec, violation=v))
            if done in (2, 300):
                ctx.sample(dict(cfg=cfg.short(), damages=dmgs, shape=shape, command=cmdspec[0]))
        if done < len(jobs):
            ctx.cap("%s: deadline (%d of %d cases)" % (cfg.short(), done, len(jobs)))
        ctx.set("cases[%s]" % cfg.short(), done)
        ctx.set("blocks[%s]" % cfg.short(), len(dl))
    ctx.set("evaluations", evals)
    ctx.assumptions += ["damage to data and parity of the same stripe is not combined (scrub by design does not compare parity once a data block failed); several parity levels of one stripe are",
                        "hash size 8/16 only: a 2^-64 collision is ignored"]


def replay(r):
    cfg = Config.from_dict(r["cfg"])
    if r.get("prepare"):
        with labmod.Lab(cfg) as L0:
            bad = []
            for op in init_ops(cfg):
                X.apply_op(L0, op)
                if op[0] == "cmd":
                    bad += X.c06(L0, " ".join(map(str, op)))
        for o in bad:
            print("  ", o)
        return not bad
    with labmod.Lab(cfg) as L0:
        for op in init_ops(cfg):
            X.apply_op(L0, op)
        saved = L0.save()
        cfgx = L0.cfg
    cs = r["command"]
    out = job((cfgx, saved, tuple(tuple(d) for d in r["damages"]), r["shape"], (tuple(cs[0]), cs[1], cs[2], cs[3]) + tuple(cs[4:]), 0))
    for v in out["viols"]:
        print("  ", v)
    return not out["viols"]
