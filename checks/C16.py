"""C16  Arrays written by the reference version stay readable and repairable.

/verif/golden holds 56 arrays and a vector file produced once by a build of the reference commit (see golden/README).
The CURRENT build must load every array, verify every file, rebuild every single lost device, and reproduce every
digest / checksum / parity vector; independently the reference implementations of native/vpref.c must agree with the
same vectors (so the golden files are anchored to the published algorithms, not only to the pinned build).
"""
import gzip, hashlib, json, os, pickle, subprocess
from vp import lab as labmod, explore as X, faults as F, content as C, par, build, ref

LEVEL = "exploration"
BUDGET = {"quick": 240, "thorough": 900}
G = os.path.join(os.path.dirname(os.path.dirname(os.path.abspath(__file__))), "golden")


def load_arrays():
    with gzip.open(os.path.join(G, "arrays.pkl.gz"), "rb") as f:
        arrays = pickle.load(f)
    # arrays caught in the middle of a hash migration, both directions (tools/make_golden2.py)
    p2 = os.path.join(G, "arrays_migration.pkl.gz")
    if os.path.exists(p2):
        with gzip.open(p2, "rb") as f:
            arrays += pickle.load(f)
    # arrays whose content file records pending states: deleted positions, new / rewritten / copied files not yet synced
    # (tools/make_golden3.py), every hash size
    p3 = os.path.join(G, "arrays_pending.pkl.gz")
    if os.path.exists(p3):
        with gzip.open(p3, "rb") as f:
            arrays += pickle.load(f)
    return arrays


def lcg_input():
    x = 12345
    out = bytearray()
    for _ in range(8192):
        x = (x * 1103515245 + 12345) & 0xffffffff
        out.append((x >> 16) & 0xff)
    return bytes(out)


def reference_vectors():
    """the vector stream recomputed with the independent implementations"""
    inp = lcg_input()
    out = bytearray()
    for k in (1, 2):
        for s in range(4):
            seed = bytes(0 if s == 0 else (s * 37 + i * 11) & 0xff for i in range(16))
            for n in range(1101):
                out += ref.blockhash(k, seed, inp[s * 7:s * 7 + n])
    for n in range(301):
        c = ref.crc32c(inp[:n])
        out += c.to_bytes(4, "little") * 2
    c = ref.crc32c(inp[:8000], 0xdeadbeef)
    out += c.to_bytes(4, "little") * 2
    blocks = [inp[100 + i * 256:100 + (i + 1) * 256] for i in range(8)]
    for p in ref.parity(0, list(range(8)), blocks, 6, 256):
        out += p
    for p in ref.parity(1, list(range(8)), blocks, 3, 256):
        out += p
    return bytes(out)


def first_diff(a, b):
    n = min(len(a), len(b))
    for i in range(n):
        if a[i] != b[i]:
            return i
    return n if len(a) != len(b) else None


def describe_offset(off):
    per = 1101 * 16
    if off < 8 * per:
        k, r = divmod(off, 4 * per)
        s, r = divmod(r, per)
        return "%s seed %d length %d" % ("murmur3" if k == 0 else "spooky2", s, r // 16)
    off -= 8 * per
    if off < 301 * 8 + 8:
        return "crc32c length %d (%s)" % (off // 8, "generic" if off % 8 < 4 else "dispatched")
    off -= 301 * 8 + 8
    if off < 6 * 256:
        return "cauchy parity level %d" % (off // 256)
    return "power (z) parity level %d" % ((off - 6 * 256) // 256)


def array_job(j):
    name, saved, seed = j
    cfg = saved["cfg"]
    L = X.materialize(cfg, saved, seed)
    L.selftest = True       # the reference arrays are read the way a user runs the tool, start-up self test included
    v = []
    golden_tree = X.data_tree(L)
    golden_content = {p: labmod._slurp(p) for p in L.content_paths()}
    n = 0
    if name.endswith("-pending"):
        return pending_array_job(L, name, golden_tree, golden_content)
    for cmd, okrc in ((("status",), (0,)), (("list",), (0,)), (("diff",), (0,)), (("check",), (0,)), (("check", "-a"), (0,))):
        r = L.run(cmd[0], *cmd[1:])
        n += 1
        if r.rc not in okrc:
            v.append(dict(kind="golden-array-%s-fails" % "-".join(cmd), array=name, rc=r.rc, out=r.text()[-400:]))
    # the independent decoder reads it too, and the current build re-writes it identically
    try:
        c = C.decode(golden_content[L.content_paths()[0]])
    except C.ContentError as e:
        v.append(dict(kind="golden-content-undecodable-by-oracle", array=name, err=str(e)))
        return dict(viols=v, n=n)
    r = L.run("test-rewrite")
    now = L.content_bytes()
    if r.rc != 0 or now != golden_content[L.content_paths()[0]]:
        v.append(dict(kind="rewrite-of-golden-content-differs", array=name, rc=r.rc))
    S = L.save()
    devs = F.devices(L)
    for dev in devs:
        L.restore(S)
        F.apply_device_fault(L, dev, "lost")
        r = L.run("fix")
        n += 1
        diffs = X.tree_equal(L, golden_tree)
        if r.rc != 0 or diffs:
            v.append(dict(kind="golden-array-not-repairable", array=name, lost=dev, rc=r.rc, diffs=[repr(x) for x in diffs[:3]],
                          out=r.text()[-300:]))
        r2 = L.run("check")
        n += 1
        if r2.rc != 0:
            v.append(dict(kind="check-fails-after-repair", array=name, lost=dev, rc=r2.rc))
    # parity written by the reference equals the independent generator (the C06 oracle needs the version store)
    L.restore(S)
    L.scan_versions()
    for o in X.c06(L, name):
        o["kind"] = "golden-" + o["kind"]
        o["array"] = name
        v.append(o)
    # the array goes on living under the current build: a file copied to the other disks (same relative path, size and time-stamp:
    # copy detection inherits its hashes) and a new file, one sync, one check
    if name.endswith("-migrating"):
        L.restore(S)
        L.scan_versions()
        c0 = L.content()
        # preferably a file whose stripes still wait for the migration
        tagged = {i for i, inf in enumerate(c0.info) if inf is not None and inf[2]}
        cand = [(d.name.decode(), f.sub.decode(errors="surrogateescape"), any(pos in tagged for _, pos, _ in f.blocks))
                for d in c0.disks.values() for f in d.files if f.size > 1024]
        cand.sort(key=lambda x: not x[2])
        src = cand[0][:2] if cand else None
        if src:
            for dn in L.cfg.disknames:
                if dn != src[0] and not os.path.lexists(L.p(dn, src[1])):
                    L.cp(src[0], src[1], dn, src[1])
        L.write(L.cfg.disknames[-1], "added-later", L.gen("added-later", 2100))
        r = L.run("sync")
        n += 1
        if r.rc != 0:
            v.append(dict(kind="golden-array-sync-after-copy-fails", array=name, rc=r.rc, out=r.text()[-400:]))
        else:
            r2 = L.run("check")
            n += 1
            if r2.rc != 0:
                v.append(dict(kind="golden-array-check-after-sync-fails", array=name, rc=r2.rc, out=r2.text()[-300:]))
            for o in X.c06(L, name + " after copy+sync"):
                o["kind"] = "golden-after-sync-" + o["kind"]
                o["array"] = name
                v.append(o)
    return dict(viols=v, n=n)


def pending_array_job(L, name, golden_tree, golden_content):
    """a reference array with pending states in its record: the current build loads it, re-writes it identically, agrees with the
    independent parity oracle about the synced stripes, completes the sync, and the completed array verifies and rebuilds"""
    v = []
    n = 0
    for cmd, okrc in ((("status",), (0,)), (("list",), (0,)), (("diff",), (2,))):
        r = L.run(cmd[0], *cmd[1:])
        n += 1
        if r.rc not in okrc:
            v.append(dict(kind="golden-array-%s-fails" % "-".join(cmd), array=name, rc=r.rc, out=r.text()[-400:]))
    try:
        C.decode(golden_content[L.content_paths()[0]])
    except C.ContentError as e:
        v.append(dict(kind="golden-content-undecodable-by-oracle", array=name, err=str(e)))
        return dict(viols=v, n=n)
    r = L.run("test-rewrite")
    if r.rc != 0 or L.content_bytes() != golden_content[L.content_paths()[0]]:
        v.append(dict(kind="rewrite-of-golden-content-differs", array=name, rc=r.rc))
    L.scan_versions()
    for o in X.c06(L, name):
        o["kind"] = "golden-" + o["kind"]
        o["array"] = name
        v.append(o)
    r = L.run("sync")
    n += 1
    if r.rc != 0:
        v.append(dict(kind="golden-array-sync-fails", array=name, rc=r.rc, out=r.text()[-400:]))
        return dict(viols=v, n=n)
    for o in X.c06(L, name + " after sync"):
        o["kind"] = "golden-after-sync-" + o["kind"]
        o["array"] = name
        v.append(o)
    r = L.run("check")
    n += 1
    if r.rc != 0:
        v.append(dict(kind="golden-array-check-after-sync-fails", array=name, rc=r.rc, out=r.text()[-300:]))
    S = L.save()
    for dev in F.devices(L):
        L.restore(S)
        F.apply_device_fault(L, dev, "lost")
        r = L.run("fix")
        n += 1
        diffs = X.tree_equal(L, golden_tree)
        if r.rc != 0 or diffs:
            v.append(dict(kind="golden-array-not-repairable", array=name, lost=dev, rc=r.rc, diffs=[repr(x) for x in diffs[:3]], out=r.text()[-300:]))
    return dict(viols=v, n=n)


def run(ctx):
    tier = ctx.tier
    meta = json.load(open(os.path.join(G, "meta.json")))
    golden = open(os.path.join(G, "vectors.bin"), "rb").read()
    ctx.set("rule", "all %d golden arrays (+ the migrating and the pending ones: record decoded, re-written identically, sync completed, then) of commit %s x {status, list, diff, check, check -a, rewrite, loss of each single device + "
                    "fix + check, independent parity oracle}; all %d vector bytes (2 hashes x 4 seeds x lengths 0..1100, CRC-32C "
                    "lengths 0..300, 9 parity blocks) reproduced by the current build and by the independent reference. "
                    "non-trivial = every array / every vector" % (len(meta["arrays"]), meta["commit"][:12], len(golden)))
    evals = 0
    if hashlib.sha256(golden).hexdigest() != meta["vectors_sha256"]:
        raise RuntimeError("golden/vectors.bin does not match meta.json")
    # ---- vectors by the current build
    exe = build.harness("vecmc", "vecmc.c")
    r = subprocess.run([exe], stdout=subprocess.PIPE, stderr=subprocess.PIPE)
    cur = r.stdout
    d = first_diff(cur, golden)
    nvec = 2 * 4 * 1101 + 301 * 2 + 2 + 9
    if r.returncode != 0 or d is not None:
        # report every differing family once
        seen = set()
        i = 0
        while i < min(len(cur), len(golden)):
            if cur[i] != golden[i]:
                what = describe_offset(i)
                fam = what.split(" length")[0]
                if fam not in seen:
                    seen.add(fam)
                    ctx.violation("C16/vectors/%s" % fam.replace(" ", "-"), "current build differs from the reference at %s" % what,
                                  dict(part="vectors", offset=i, what=what))
                i = (i // 16 + 1) * 16
            else:
                i += 1
        if len(cur) != len(golden) and not seen:
            ctx.violation("C16/vectors/length", "vector stream length %d != %d" % (len(cur), len(golden)), dict(part="vectors"))
    evals += nvec
    for i in range(0, nvec, 23):
        ctx.nontrivial(("vector", i))
    ctx.set("vectors", nvec)
    # ---- vectors by the independent reference
    mine = reference_vectors()
    d = first_diff(mine, golden)
    if d is not None:
        raise RuntimeError("the independent reference disagrees with the golden vectors at %s: golden files or vpref.c are wrong" % describe_offset(d))
    ctx.set("vectors_confirmed_by_independent_reference", nvec)
    ctx.sample(dict(part="vectors", example=describe_offset(16 * (1101 + 777)), digest=golden[16 * (1101 + 777):16 * (1101 + 778)].hex()))
    # ---- arrays
    arrays = load_arrays()
    if tier == "quick":
        pass
    jobs = [(name, saved, ctx.seed) for name, saved in arrays]
    done = 0
    for j, r in par.pmap(array_job, jobs, deadline=ctx.deadline):
        done += 1
        evals += r["n"]
        ctx.nontrivial(("array", j[0]))
        for v in r["viols"]:
            ctx.violation("C16/arrays/%s" % v["kind"], "%s: %s %r" % (v["kind"], j[0], {k: x for k, x in v.items() if k in ("lost", "rc", "where")}),
                          dict(part="arrays", array=j[0], violation=v))
        if done == 2:
            ctx.sample(dict(part="arrays", array=j[0], commands_run=r["n"]))
    if done < len(jobs):
        ctx.cap("deadline (%d of %d golden arrays)" % (done, len(jobs)))
    ctx.set("arrays", done)
    ctx.set("evaluations", evals)
    ctx.assumptions += ["the golden files were produced by the reference commit's own code (tools/make_golden.py); the independent reference confirms the vectors"]


def replay(r):
    if r["part"] == "vectors":
        golden = open(os.path.join(G, "vectors.bin"), "rb").read()
        exe = build.harness("vecmc", "vecmc.c")
        cur = subprocess.run([exe], stdout=subprocess.PIPE).stdout
        return cur == golden
    for name, saved in load_arrays():
        if name == r["array"]:
            out = array_job((name, saved, 0))
            for v in out["viols"]:
                print("  ", v)
            return not out["viols"]
    return False
