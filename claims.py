# id -> claim (category, technique, text, note, design section, engine); read by tools_manifest.py
def claim(i, **kw):
    CLAIMS[i] = kw

claim("C06", category="model_checking", engine="arraymc",
      technique="explicit-state BFS over operation histories executed by the real CLI; independent parity/content oracle on every reached state",
      text="Every state reachable by <=3 (quick) / <=4 (thorough) operations (9 file operations x 18-23 snapraid commands incl. every sync flavour, "
           "kill-after-sync, forced autosave, files changed/removed during sync, scrub, fix variants, rehash, touch) from a synced array, in 3 / 6 "
           "configurations (1,2,3z,3,6 levels; split parity; hash kinds/sizes; several content copies), is decoded with an independent content "
           "codec and every all-synced stripe is recomputed with an independent GF(2^8) generator and compared with the parity bytes addressed "
           "through the recorded split sizes; map sanity is checked on the same state. Exhaustive within the depth bound; all traces are real executions.",
      note="trusted: libvp interposition (frozen clock/urandom/statfs), the lab's version store as ground truth for file bytes, vpref.c as field/generator reference; arrays have <=4 disks and 1-2 KiB blocks",
      design="3 C06")

claim("C01", category="model_checking", engine="arraymc",
      technique="explicit-state BFS over sync histories on the real CLI, then exhaustive enumeration of every fault set within the parity level on every distinct synced state",
      text="Phase 1 enumerates every operation sequence of depth<=2 (quick) / <=3 (thorough) over deletes, adds, rewrites, moves (also across disks), "
           "partial (-B/-S), forced (-F) and re-allocating (-R) syncs from a synced tree containing every boundary size, odd byte names, symlinks, "
           "hardlinks and empty directories; configurations cover 1,2,3z,6 levels (+3,4,5 thorough), split parity, hash kinds/sizes, content copies on "
           "data disks and a removed-disk position hole. Phase 2 applies, to every distinct state that follows a complete successful sync, every subset "
           "of <=N devices as lost / corrupted with unchanged timestamps / mixed, every rotating per-stripe pattern of N damaged blocks and every single "
           "file, link or directory deletion/truncation; after fix the data trees must equal the sync-time snapshot (bytes, mtime, link targets, "
           "hard-link identity, empty dirs), fix and a following check must report no error, and the C06 parity oracle must hold.",
      note="trusted: lab ground truth and libvp; <=4 data disks, 1-2 KiB blocks; corruption shapes only with hash size>=8; the decoder algebra for up to 251 disks is C02/C03's subject",
      design="3 C01")
