# id -> claim (category, technique, text, note, design section, engine); read by tools_manifest.py
def claim(i, **kw):
    CLAIMS[i] = kw

claim("C06", category="model_checking", engine="arraymc",
      technique="explicit-state BFS over operation histories executed by the real CLI; independent parity/content oracle on every reached state",
      text="Every state reachable by <=3 (quick) / <=4 (thorough) operations (9 file operations x 18-23 snapraid commands incl. every sync flavour, "
           "kill-after-sync, forced autosave, files changed/removed during sync, scrub, fix variants, rehash, touch) from a synced array, in 3 / 6 "
           "configurations (1,2,3z,3,6 levels; split parity; hash kinds/sizes; several content copies), is decoded with an independent content "
           "codec and every all-synced stripe is recomputed with an independent GF(2^8) generator and compared with the parity bytes addressed "
           "through the recorded split sizes; map sanity is checked on the same state. Exhaustive within the depth bound; all traces are real executions.",
      note="trusted: libvp interposition (frozen clock/urandom/statfs), the lab's version store as ground truth for file bytes, vpref.c as field/generator reference; arrays have <=4 disks and 1-2 KiB blocks",
      design="3 C06")
