# id -> claim (category, technique, text, note, design section, engine); read by tools_manifest.py
def claim(i, **kw):
    CLAIMS[i] = kw

claim("C06", category="model_checking", engine="arraymc",
      technique="explicit-state BFS over operation histories executed by the real CLI; independent parity/content oracle on every reached state",
      text="Every state reachable by <=3 (quick) / <=4 (thorough) operations (9 file operations x 18-23 snapraid commands incl. every sync flavour, "
           "kill-after-sync, forced autosave, files changed/removed during sync, scrub, fix variants, rehash, touch) from a synced array, in 3 / 6 "
           "configurations (1,2,3z,3,6 levels; split parity; hash kinds/sizes; several content copies), is decoded with an independent content "
           "codec and every all-synced stripe is recomputed with an independent GF(2^8) generator and compared with the parity bytes addressed "
           "through the recorded split sizes; map sanity is checked on the same state. Exhaustive within the depth bound; all traces are real executions. "
           "Later additions: operations 'silent' (in-place corruption keeping size and stamp), syncs with an injected read error, sync -E; initial states with silent errors pending; transition oracles after every command (hash kept for DELETED positions, books untouched by rehash/touch); a part where the parity disk runs full in the middle of a history. A part with hash size 2 where a rewritten or new block is made (by enumeration) to have the same reduced hash as the block it replaces or as a marker value. A part with disks that are configured but empty and a disk added to the configuration (every subset x every place x every receiving disk).",
      note="trusted: libvp interposition (frozen clock/urandom/statfs), the lab's version store as ground truth for file bytes, vpref.c as field/generator reference; arrays have <=4 disks and 1-2 KiB blocks",
      design="3 C06")

claim("C01", category="model_checking", engine="arraymc",
      technique="explicit-state BFS over sync histories on the real CLI, then exhaustive enumeration of every fault set within the parity level on every distinct synced state",
      text="Phase 1 enumerates every operation sequence of depth<=2 (quick) / <=3 (thorough) over deletes, adds, rewrites, moves (also across disks), "
           "partial (-B/-S), forced (-F) and re-allocating (-R) syncs from a synced tree containing every boundary size, odd byte names, symlinks, "
           "hardlinks and empty directories; configurations cover 1,2,3z,6 levels (+3,4,5 thorough), split parity, hash kinds/sizes, content copies on "
           "data disks and a removed-disk position hole. Phase 2 applies, to every distinct state that follows a complete successful sync, every subset "
           "of <=N devices as lost / corrupted with unchanged timestamps / mixed, every rotating per-stripe pattern of N damaged blocks and every single "
           "file, link or directory deletion/truncation; after fix the data trees must equal the sync-time snapshot (bytes, mtime, link targets, "
           "hard-link identity, empty dirs), fix and a following check must report no error, and the C06 parity oracle must hold. "
           "Later additions: twin files (same size and second, other nanoseconds) with the single-disk damage 'one recorded file moved over another'; rotating damage with truncated file tails; one configuration with persistent inodes (fake UUID); thorough: one configuration run with the start-up self test enabled. The disk that follows a position hole carries empty files, links and empty directories. Symbolic links re-pointed to a prefix of their target and to the target plus one character.",
      note="trusted: lab ground truth and libvp; <=4 data disks, 1-2 KiB blocks; corruption shapes only with hash size>=8; the decoder algebra for up to 251 disks is C02/C03's subject",
      design="3 C01")

claim("C04", category="fault_enumeration", engine="arraymc",
      technique="exhaustive enumeration of every data block and every used parity block x corruption shapes x verifying commands on the real CLI",
      text="For 3 (quick) / 6 (thorough) configurations (1,2,3z levels; +6, 3 with 4 disks and 2 KiB blocks, position hole; reduced hash size, "
           "hash migration in progress, split parity) every block of every file is damaged with each of 4 shapes and every used parity block of "
           "every level with 2 shapes, size and time-stamp preserved; thorough adds every pair in different stripes. Each case is given to check -a, "
           "check, scrub -p full / new / 100 (clock advanced) / 50 -o 0 / bad (after a marking scrub) and the set of error:/parity_error: tags must "
           "equal the damaged (stripe, disk|level) set the command covers, the exit status must fail, and status -G must list exactly those stripes "
           "as bad after a scrub; the undamaged array must stay silent under every command. "
           'Later additions: a partly synced configuration (pending blocks on a lower disk next to synced blocks of a higher disk); full check and full scrub repeated with every pread answering short; the shared transition oracles (parity, books) after every command of the preparation. A configuration with an unused stripe range in the middle of the array; several parity levels damaged in the same stripe.',
      note="same-stripe data+parity damage is not combined (scrub by design skips the parity compare once a data block failed); hash sizes 8/16 only",
      design="3 C04")

claim("C05", category="model_checking", engine="arraymc",
      technique="explicit-state BFS over sync histories (complete, partial, killed, stripe-skipping) then exhaustive damage x filter enumeration with an independent version oracle",
      text="Phase 1 reaches every state within depth 2 (quick) / 3 (thorough) of adds, deletes, same/other-length rewrites, moves and sync flavours "
           "(complete, -B/-S partial, killed after the parity update, forced autosave + kill, stripes skipped because a file was touched or removed "
           "during the sync, pre-hash, scrub); every distinct state is a target. Phase 2 applies every subset of devices lost (also more than N), "
           "per-file remove / truncate / flip of a hashed block, parity stale or garbage, each under 6 filter combinations of -f/-d/-m/-e. After fix "
           "every recorded file must either carry the bytes of its recorded version (version store narrowed by the recorded hashes of synced "
           "blocks) or be reported unrecoverable with failing exit and summary; nothing unselected or unknown to the content file may be written, and "
           "content files stay untouched. "
           'Later additions: initial states from interrupted histories (copy partly synced and removed, replaced file not yet in parity, killed sync then rewrite, DELETED records surviving a killed sync, pending file beyond the end of the other disks); a part that loses a hash-less new file together with every subset of parity levels on 3 (thorough 4, z) levels; quick rotates the filters over the outer states. A part with errors recorded by scrub (bad marks) in a file fragmented around another one: every subset of four blocks, fix -e / -e -f / unfiltered.',
      note="damage restricted to the statement's detectable class; a never-synced file the user changed again after it was recorded is outside that class and not judged",
      design="3 C05")

claim("C11", category="model_checking", engine="arraymc",
      technique="exhaustive enumeration of all operation sequences up to a depth on the real CLI, ground truth from the file system and an independent content decoder",
      text="Every sequence of <=2 (quick) / <=3 (thorough) operations over a 24-operation alphabet (create, overwrite, same-length rewrite, nsec-only "
           "and sec-only rewrites, append, truncate, delete, rename, move to dir / disk, copy, file<->dir, file<->symlink, retarget, add/remove "
           "hardlink, mtime-only, swap, delete+create, empty dirs) on colliding names of a synced 2-disk array, followed by a second round in "
           "thorough; additionally all sequences of length <=1 (quick) / <=2 (thorough) in fake-UUID persistent-inode mode, inode / dir / physical "
           "scan order and with parallel scanning. Before sync diff must exit 2 exactly when the recorded files/links differ from the tree; after a "
           "sync that exits 0: diff 0 with zero counters, list -l and the decoded content equal the tree walk (files, links, empty dirs), every "
           "block is synced with the independent hash of the current bytes, check passes and the C06 oracle holds. "
           "Later additions: one operation followed by each kind of incomplete sync; a mode in which the disks' UUID appears between the base sync and the judged one (recorded inodes void) with twins exchanging inode numbers; a file put back with an unchanged stamp and its hard link; inode-aware diff expectation with persistent inodes.",
      note="inode reuse cannot be forced on tmpfs; in order-sensitive modes the base state is rebuilt per sequence instead of restored",
      design="3 C11")

claim("C07", category="fault_enumeration", engine="crashmc",
      technique="exhaustive crash-point enumeration: every state-changing syscall index x {kill before, kill after, torn write} and every SIGINT stripe on the real binary via LD_PRELOAD",
      text="For 4 (quick) / 9 (thorough) scenarios (pending adds only, adds+deletes+updates+moves; 1,2,3,6 levels; 1-3 content copies incl. one on a "
           "data disk; split parity; forced autosave; pre-hash) the reference sync is traced to number its state-changing calls (numbering checked "
           "deterministic by a second run and by prefix comparison in every killed run); sync is then killed at EVERY index before / after / in the "
           "middle of the call, and interrupted by SIGINT at every level-0 parity write. Each crash state must leave data trees untouched, let "
           "status/list/diff/check -a load a content file, satisfy the C06 oracle, keep every previously synced file recoverable from each single lost "
           "device (adds only; <=N devices after SIGINT), and a re-run sync must complete and restore full recoverability (each single device + one "
           "pair). fix after a lost disk is killed at every one of its calls and re-run: the final tree must equal the uninterrupted result (mtime "
           "of the file cut short excepted). "
           'Later additions: graceful stop also for TERM (thorough HUP, QUIT) and between the level writes of a stripe; scenarios with split parity that does not grow, with and without -E; a part that holds one parity writer thread before each of its writes (threaded I/O, forced autosave) and kills the process as soon as a content save completes meanwhile. A scenario whose only pending file is taken for a copy (split parity, no growth).',
      note="crash model: process death with completed syscalls durable (no reordering of unsynced writes); one recorded finding: torn parity write with a single level",
      design="3 C07")

claim("C08", category="fault_enumeration", engine="crashmc",
      technique="exhaustive single-fault enumeration: every pread on every data/parity file and every pwrite on every parity file failed once (EIO/ENOSPC) via LD_PRELOAD, per io-cache depth",
      text="For sync with pending adds (2 and 3 levels), sync -F and scrub -p full, with io-cache depths {1,3,8} (quick) / {1,3,4,8,128} (thorough), a "
           "fault-free traced run lists every read/write call per file; each is failed once (pairs on different files/stripes in thorough). The run "
           "must exit failing with a diagnostic, the stripe hit must not be recorded synced-and-healthy, the C06 oracle must hold, all other stripes "
           "must end as in the fault-free run (EIO), and the next sync or fix -e + scrub -p bad must clear everything. Read-side errors are checked "
           "strictly; the three parity-write defects are recorded findings keyed by call site. "
           'Later additions: short reads as an environment answer (alone: must be transparent; followed by EIO on the continuation); scrub scenarios with a standing file error (file removed / shortened since the sync) in the stripe of the injected error, judged against the fault-free run of the same scenario. Scrub scenarios on stripes that an earlier scrub marked bad after an I/O error.',
      note="threaded depths run free; per-file call numbering is schedule independent (one worker per file); the tail-not-collected finding is the only schedule dependent outcome",
      design="3 C08")

claim("C09", category="fault_enumeration", engine="bytemc + crashmc",
      technique="exhaustive byte/bit mutation of content files through the real loader under ASan/UBSan, plus exhaustive kill-point enumeration of the save-verify-rename sequence",
      text="Part 1: for 2 (quick) / 6 (thorough) content shapes (v2, v3 with reduced hash and split parity, deleted-block runs, pending blocks, "
           "rehash in progress, odd names, bad marks) EVERY single-bit flip, EVERY truncation length, every byte forced to 00/ff (thorough: all 256 "
           "values at every tag-like offset) and an appended byte is loaded by an address+undefined sanitized build of the real binary via status and "
           "list (thorough also diff, check -a, sync): the command must exit failing or stop through its own os_abort, with no sanitizer report, no "
           "other signal, no hang (60 s, re-run with 600 s) and no file changed. Part 2: sync, touch and scrub with 1,3 (thorough 1,2,3,5,7) content "
           "copies are killed before/after/in the middle of every state-changing call; every configured copy must be byte-identical to the old "
           "version or decode (CRC included) to one of the complete new versions, and all copies are identical after success. "
           "Later additions: structure-aware mutations (every packed number replaced by 2^31-1, 2^31, 2^32-1 / 2^32, 2^63, 2^64-1); after every kill point the user's next sync must leave all copies identical (format-3 scenarios included); part 3 lets one or two freshly flushed copies rot silently before the re-read. Part 4: every non-empty proper subset of three copies missing before a command that has nothing else to save.",
      note="new-version identity is the decoded model without inode numbers (inode numbers of data files differ between two materialisations of one state)",
      design="3 C09")

claim("C12", category="model_checking", engine="arraymc (monitor)",
      technique="exhaustive command x option x array-condition sweep on the real CLI with a permission-matrix monitor over snapshot bracket and syscall trace",
      text="Every entry of a 39-command/option menu (status, diff, list, dup, devices, check with -a/-f/-d/-m/-e/-i, scrub plans, sync with "
           "-F/-R/-h/-N/-B/-E/--force-zero/-U/-D, fix with -f/-d/-m/-e/-i/-d parity, pool, touch, rehash; sync/scrub/fix/check also threaded) is run "
           "on six array conditions (healthy, unsynced, silently damaged, data disk lost, parity lost, interrupted sync) in 2 (quick) / 4 (thorough) "
           "configurations. Both the before/after snapshot of the whole lab and the trace of state-changing system calls must respect the matrix: "
           "read-only commands nothing; scrub/rehash content only; sync content+parity and never below a data disk; fix never content, only data "
           "paths it tags fixed/recovered/unrecoverable (and their hard links / parent dirs) and only parity blocks it tags parity_fixed; pool only "
           "the pool dir; touch only the sub-second mtime of files whose recorded nsec is zero plus content. Allowed always: log, lock file. "
           'Later additions: conditions bad-then-missing, kinds swapped (empty file to link, link to file, directory to file, file to directory), a recorded zero-nanosecond file rewritten since; menu entries for -b and range-limited fix. Conditions with a multi-block file rewritten by the user since the sync (also after a bad mark).',
      note="the monitor (vp/perm.py) is also usable on every run of the other checks; 'zero time-stamps' = recorded sub-second part zero",
      design="3 C12")

claim("C14", category="fault_enumeration", engine="arraymc + crashmc",
      technique="exhaustive trigger enumeration (per disk / level / setting, with and without pending changes and override) plus pausing a first command at every state-changing call for the lock",
      text="Triggers: all files of a disk missing / all rewritten / mixed (per disk), a non-empty file now empty (per disk), parity shortened by a "
           "block (per level, overrides -F and -R), blocksize and hashsize changed in the configuration, a recorded disk dropped from it - each alone "
           "and combined with ordinary pending changes. sync must exit failing, leave every content and parity file byte-identical and issue no "
           "write/rename/truncate on them (trace); with the override or the setting restored the same sync must succeed and C11's post-sync oracle "
           "hold. Lock: sync, scrub, fix and touch are paused (LD_PRELOAD) at EVERY state-changing call k>=1 while a second sync is attempted: it "
           "must be refused with 'already in use' and write nothing; after release the first command completes and sync proceeds. "
           'Later additions: per-disk triggers combined with files arriving on the emptied disk; zero-size trigger below a sub-directory; a configuration whose second disk is still unrecorded; configuration mismatches also tried with the force options of other interlocks; more first commands for the lock. Parity shortened by less than a block (and a configuration whose content records parity sizes); every trigger also tried with the overrides of the other interlocks.',
      note="SIGABRT from the tool's own os_abort counts as a failing refusal (v2 content + reduced hashsize in the configuration ends that way)",
      design="3 C14")

claim("C15", category="model_checking", engine="arraymc",
      technique="exhaustive enumeration of per-stripe book assignments (planted through the independent content encoder) x scrub plans on the real CLI, verified set taken from the parity-read trace",
      text="On a real synced 6-stripe array the per-stripe info words are set to EVERY assignment of three ages (30/15/5 days; 3^6) with the young "
           "ones just-synced, and to every subset of bad marks; the real scrub is run under 6 (quick) / 15 (thorough) (plan, -o) combinations incl. "
           "bad/new/full/0/percentages/default. The set of stripes whose parity was actually read must contain every bad stripe, equal the used / "
           "just-synced / bad set for full / new / bad, and for a percentage stay within ceil(p*blockmax/100), include no stripe younger than the age "
           "limit and skip no eligible stripe strictly older than a verified one. Afterwards verified-correct stripes have time=now and cleared "
           "marks, unverified stripes are unchanged; one damage (data, parity, file changed since sync) at every stripe: silent errors are marked bad "
           "without refreshing the time, changed files are never marked bad; exit status fails iff verified damage; scrub -> fix -e -> scrub -p bad at "
           "every stripe clears the mark; 20 default scrubs 11 days apart cover every stripe; the C12 monitor holds on every run. "
           'Later additions: a real silent error in a stripe shared with a file changed since the sync must still be marked; books (time, never-scrubbed mark) of everything not verified correct must not move, also for wholly pending stripes. A second base with an unallocated stripe (quota above the number of dated stripes).',
      note="tie rule among equally old stripes is free; the clock is frozen per command through libvp",
      design="3 C15")

claim("C17", category="model_checking", engine="arraymc",
      technique="twin-array differential exploration on the real CLI over every per-split size limit in 512-byte steps",
      text="A single-parity-file array and a k-split array (k in {2,3}, thorough {2,3,4,8}; 1-2, thorough 1-3 levels) are driven through the same "
           "10-step history (three growths, shrink, growth, sync -F, loss of the last used split + fix, loss of a data disk + fix, shrink to almost "
           "nothing, removal of unused trailing splits from the configuration, growth) for EVERY --test-parity-limit from 1 block to beyond the total "
           "parity in 512-byte steps (aligned and unaligned limits, limits hit mid-growth). After every command the concatenation of the splits cut "
           "at their recorded sizes must equal the twin's parity byte for byte, recorded sizes must be block multiples not larger than the files, "
           "only the last used split may change size while growing, the C06 oracle (positions read back through the recorded sizes) must hold, and "
           "a limit too small for the data must give a clean refusal that leaves C06 intact. "
           "Later additions: asymmetric configurations (only one level split, limits computed from the tool's limit formula), every non-empty split of every level lost in turn alone and with a data disk, total length compared with the twin, split file lengths unchanged by a rebuild, per-file limit growing between syncs. A fixed-size split lost and fix run with less room than at sync time (refusal or in-place rebuild, never a shifted mapping). Every fixed-size split loses its last block: check reports exactly that stripe, a plain fix restores it. Every used split lost and followed by sync (must be refused).",
      note="limits come from the tool's own test seam; <=2 data disks",
      design="3 C17")

claim("C19", category="model_checking", engine="arraymc",
      technique="exhaustive enumeration of a decoy scenario matrix on the real CLI with independent hash / parity / version oracles",
      text="All combinations of look-alike location (other disk same path, other disk other directory, same disk other directory; thorough also "
           "other name) x zero / non-zero sub-second stamp (path-stamp vs name-stamp rule) x {true copy, decoy differing in the first / last "
           "(thorough middle) block} x source {fully, partially} hashed x {sync, sync -h, sync -N} (thorough x 1,2 levels). After the sync: no block "
           "is recorded synced unless its recorded hash is the independent hash of its own bytes and the C06 oracle holds; a decoy taken for a copy "
           "must produce an error, with -h the parity files must be byte-identical, with -N no copy may be detected, a partially hashed source must "
           "not donate hashes. Then the original is lost (alone, and with all parity) and fix / fix -i <dir holding decoys and a true copy> run "
           "with the decoy still in the array: every recorded file ends with bytes matching its recorded hashes or is reported unrecoverable (C05's "
           "oracle), never decoy bytes under the original's identity. "
           'Later additions: the matrix repeated with reduced hash size, with a silent error in every stripe of the look-alike, with the original removed (look-alike posing as a move) and with the stopped sync -h repeated; stale import for hash-less blocks; inode look-alikes after a UUID change. A same-path part: the file rewritten in place / replaced with the same size and seconds but another sub-second part.',
      note="inode-keeping moves are trusted by design; hash size 16",
      design="3 C19")

claim("C20", category="model_checking", engine="arraymc",
      technique="enumeration of recorded states x trees on the real CLI, every report compared with an independent decode and byte-level ground truth",
      text="Trees with duplicate groups of size 4 / 3 / 2 within and across disks, near-duplicates (one byte different at either end, equal prefix "
           "different length), empty files, sym/hard links, and 15 names made of spaces, newlines, CR, tabs, colons, backslashes, escape look-alikes, "
           "quotes, glob characters and non-UTF-8 bytes; recorded states synced / partially synced / bad marks / hash migration scheduled and half "
           "done; with and without a share prefix (x2 configurations in thorough). list: tag lines parse into exactly the recorded files and links "
           "(sizes, times, targets) after inverting the escape, with the right field count; dup: connected components of the reported pairs equal "
           "the content-equality classes of non-empty fully synced files and the pair count is sum(n-1) (soundness only during a migration); "
           "status -G: per-stripe used / unsynced / bad / rehash / time lines and the has_unsynced / has_unscrubbed / has_rehash / has_bad counters "
           "equal the decode; pool: exactly one link per recorded file and link with the right target, stale links and empty directories removed, "
           "foreign files kept. "
           'Later additions: recorded state unsynced-head (range-limited sync), hidden names in tree and re-pool, re-pool after a cross-disk move and a share change. State bad-spread (first, middle, last stripe bad) with the first/last fields of the bad summary compared.',
      note="unambiguity judged on the tagged log; human readable stdout not judged",
      design="3 C20")

claim("C10", category="model_checking", engine="arraymc + bytemc",
      technique="explicit-state BFS over real histories with byte-level round-trip oracles (tool rewrite, independent encoder), plus exhaustive boundary-value synthesis through the independent encoder",
      text="(a) On every distinct state within depth 2 (quick) / 3 (thorough) of C06's alphabet, in 2 / 4 configurations (several content copies incl. "
           "one on a data disk, reduced hash sizes 8 and 2, both hash kinds, split parity, position hole, z mode, odd names, links, empty dirs): the "
           "independent encoder reproduces the tool's content bytes exactly, test-rewrite reproduces every copy byte for byte, list and status -G "
           "dumps are unchanged by the rewrite and identical whichever copy is read (earlier copies removed one by one). (b) States synthesised "
           "with the independent encoder - every 64-bit scalar (size-compatible mtime, inode) and 32-bit scalar (total/free blocks of maps and "
           "parities) at each varint length boundary up to 2^64-1 / 2^32-1, nanoseconds invalid/0/1/999999999/2^30, info times at delta boundaries "
           "with alternating flags, sparse maps with single-block runs at positions 127..2^21, a 16389-block run and 300 deleted blocks - must be "
           "loaded, rewritten to exactly the encoder's bytes, and shown with the same values by list. "
           "Later additions: configurations 'emptied' and 'phantom' (disks whose last remains are DELETED positions); C06's parity oracle and the transition oracles evaluated in every step; one configuration with persistent inodes. Several links and several empty directories on one disk. Configuration codeleted (a position deleted on both disks, held by no file).",
      note="info times are multiples of 8 s and never in the future in reachable states; states are re-based between same-length lab roots because v3 content records absolute split paths",
      design="3 C10")

claim("C02", category="exploration", engine="raidmc",
      technique="exhaustive enumeration of every table entry and of every generator variant x nd x size x basis/dense input on the real functions against an independent GF(2^8) reference",
      text="All 108 626 entries of the seven lookup tables are compared with a shift-and-xor GF(2^8)/0x11d reference and the generator matrices built "
           "from their definitions. Every raid_gen*/raid_genz* function declared in raid/internal.h (scanned at build time; 30 today, every CPU "
           "variant is runnable here) and the dispatcher in both modes are run for nd in a 14-value boundary set (quick) / every nd 1..251 (255 for "
           "z) (thorough), sizes 64..512 and 16384, with the complete single-disk byte basis (all 256 values in all 64 lanes, every disk) and dense / "
           "seeded inputs; parity must equal the reference sum, data buffers stay unchanged, parities beyond np and all canaries stay intact.",
      note="built by a sub-agent under my specification and re-run by me; linearity is not assumed (basis + dense families)",
      design="3 C02")

claim("C03", category="exploration", engine="raidmc",
      technique="exhaustive enumeration of all 377 342 351 231 square minors of the generator tables and of all erasure index sets up to stated nd on the real decoders",
      text="Every square sub-matrix of the exported 6x251 Cauchy table and of the 3x251/3x255 power matrices is shown non-singular by a depth-first "
           "elimination walk with own arithmetic (zeros confirmed by a plain determinant, per-k counts must equal C(rows,k)C(cols,k), planted-singular "
           "self-test first); the tables must equal their definitions. All 9 low-level decoders plus raid_rec and raid_data in both modes: every "
           "failure index set over data and parity and every admissible parity subset for nd<=8 (thorough 12), all pairs plus a boundary alphabet "
           "for nd up to 251; recovered blocks bit-identical, survivors, unrequested parities, pointer vectors and canaries untouched. raid_check / "
           "raid_scan: every (corrupted set T, candidate set C) with |T|,|C|<np for nd<=5 (thorough 7): accept iff C covers T, reject when exactly "
           "one corrupted block is unlisted, scan returns exactly T within the unique decoding radius.",
      note="built by a sub-agent under my specification and re-run by me; only genuine erasure patterns (survivors consistent)",
      design="3 C03")

claim("C18", category="exploration", engine="bytemc (filter harness) + arraymc",
      technique="exhaustive enumeration of rule lists x paths on the real filter functions (linked harness) against an oracle written from the manual, plus end-to-end and selection sweeps on the CLI",
      text="Part 1: the real filter_alloc_file / filter_path / filter_subdir / filter_emptydir are called for ALL rule lists of length <=2 over 24 "
           "patterns x 2 directions plus length 3 over a 12-pattern core (thorough: length 3 over all 24; 110 592 lists) and 11 invalid patterns, "
           "on ALL 84 file paths and 20 directory paths of a 3-level tree; verdicts (and the composed directory walk scan performs) must equal "
           "vp/rules.py: first matching rule decides, no match -> excluded iff the last rule is an include, name patterns against components of the "
           "right kind, rooted patterns against the path from the disk root with * ? [] never crossing '/', directory patterns taking everything "
           "below, escapes. Part 2: every single rule and 6 ordered pairs end to end through sync and the decoded content, with and without nohidden, "
           "with content copies, a stale tmp and lock files on a data disk (never recorded). Part 3: all 64 combinations of -f (3 patterns) / -d / -m / "
           "-e in check -v: the processed file set equals the prediction and nothing is written. "
           'Later additions: the selection part plants a wrong parity block (parity must stay untouched under -f/-m/-d DATADISK), missing links and empty directories, a bad-marked file rewritten by the user (outside -e). The end-to-end tree holds symbolic links (every third entry).',
      note="cases where 'first match decides' and 'a directory pattern takes everything below' disagree are counted and not judged (manual ambiguous); fix's side of selection is C05's filter menu",
      design="3 C18")

claim("C16", category="exploration", engine="bytemc (vector harness) + arraymc",
      technique="exhaustive replay of stored reference arrays and of stored digest / checksum / parity vectors against the current build, cross-checked by independent implementations",
      text="56 arrays written by a build of the reference commit (levels 1-6 and z3 x murmur3/spooky2 x hash sizes 16/8/4/2, every third with split "
           "parity; two sync generations with deleted-block holes, links, empty dirs, zero-size file, two content copies) are loaded by the current "
           "build: status, list, diff, check, check -a succeed, test-rewrite reproduces the content bytes, every single lost device (3 disks + all "
           "levels) is rebuilt by fix to the golden bytes and check passes, and the independent parity/content oracle accepts the reference's files. "
           "9421 vectors (both hashes for every length 0..1100 x 4 seeds, CRC-32C generic and dispatched for lengths 0..300 and a seeded long run, 6 "
           "Cauchy + 3 power parity blocks of an 8-disk stripe) are reproduced bit for bit by the current build through a linked harness; the same "
           "vectors are recomputed by native/vpref.c so the golden files are anchored to the published algorithms. "
           'Later additions: 12 reference arrays caught in the middle of a hash migration (both directions); the arrays are read with the start-up self test enabled. 20 reference arrays whose record holds pending states (deleted positions, new / rewritten / copied files saved by a range-limited sync), every hash size.',
      note="golden files generated once from a scratch worktree of commit e695936 (see golden/README); both tiers run everything",
      design="3 C16")

claim("C13", category="model_checking", engine="schedmc",
      technique="stateless exhaustive exploration of thread interleavings of the real io.c under a cooperative scheduler (state-fingerprint pruning, unbounded for small rings), deviation-bounded exploration of the whole binary, plus free-running depth sweep and ThreadSanitizer pass",
      text="Part 1: cmdline/io.c (compiled unchanged, included into the harness) with harness callbacks and a driver issuing the exact call sequence "
           "of sync / scrub; every interleaving at synchronisation points and inside worker callbacks is executed (one forked run per schedule): "
           "unbounded with pruning on a fingerprint of all ring state plus thread continuations for io_max 3 (1 reader, 1 writer, 3 stripes) over all "
           "enabled / skip / early-stop / role / signal-outside variants and injected reader / writer errors (thorough: io_max 3-4, 1-2 readers and "
           "writers, every enabled bitmap of 4 stripes, deeper rings preemption bounded); monitors: no buffer used by the caller while a worker "
           "reads/writes it, every stripe exactly once and in order per worker, termination, writer error accounting. Part 2: the unmodified binary "
           "under the same scheduler as LD_PRELOAD (scan, reader, writer, verify threads): every schedule with <=1 deviation from the default (<=2 on a "
           "tiny scenario in thorough) must give the single-threaded outcome (exit, tags, parity bytes, content, trees). Part 3: every "
           "--test-io-cache depth (8 values quick, all 3..128 thorough) x multi-scan on/off on 7 scenarios incl. two silent errors in one stripe. "
           "Part 4: ThreadSanitizer build, free running. "
           'Later additions: scenarios with a pending hash migration and with two silent errors in one stripe in every part. A scrub scenario with a touched file followed by silent errors on the same disk.',
      note="sequential consistency only; unsynchronised accesses are visible only to the TSan pass; two recorded findings (writer error lost, scan copy-source race)",
      design="3 C13, 11.2")
