# filled as checks are registered
