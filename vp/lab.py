"""The array lab: builds tiny snapraid arrays under a scratch root and drives the real CLI
deterministically (clock, urandom, statfs, dir order owned through libvp / test options).
"""
import os, shutil, subprocess, hashlib, stat, itertools, tempfile, errno
from . import build, content as contentmod, taglog

REBASE_INODES = os.environ.get("VP_REBASE_INODES", "1") != "0"
T0 = 1_600_000_000          # base of every file mtime written by the lab
NOW = T0 + 10_000_000       # frozen clock default
LEVEL_NAMES = ["parity", "2-parity", "3-parity", "4-parity", "5-parity", "6-parity"]

_counter = itertools.count()


def scratch_base():
    for b in ("/dev/shm", os.environ.get("TMPDIR", "/tmp")):
        if os.path.isdir(b) and os.access(b, os.W_OK):
            return b
    return tempfile.gettempdir()


def gen(tag, size, seed=0):
    """deterministic pseudo random bytes (never all zero for size>0)"""
    if size == 0:
        return b""
    d = hashlib.shake_256(("%s:%s" % (seed, tag)).encode(errors="surrogateescape")).digest(size)
    if d[0] == 0:
        d = b"\x01" + d[1:]
    return d


_SPANS = {}


def _inode_spans(data):
    """positions of the inode fields of a content file the independent codec reproduces byte for byte (else None); memoised"""
    k = hashlib.blake2b(data, digest_size=12).digest()
    if k not in _SPANS:
        if len(_SPANS) > 256:
            _SPANS.clear()
        try:
            c = contentmod.decode(data)
            _SPANS[k] = list(c.inode_spans) if contentmod.encode(c) == data else None
        except Exception:
            _SPANS[k] = None
    return _SPANS[k]


class Config:
    def __init__(self, levels=1, z=False, ndisks=2, blocksize=1, hashsize=16, hashkind="murmur3",
                 splits=None, parity_limit=None, contents=None, autosave_at=None, nohidden=False,
                 rules=(), pool=False, disknames=None, extra_conf=(), tag="", uuid=False, selftest=False, splitdirs=False):
        self.levels = levels
        self.z = z
        self.ndisks = ndisks
        self.blocksize = blocksize
        self.hashsize = hashsize
        self.hashkind = hashkind
        self.splits = dict(splits or {})
        self.parity_limit = parity_limit
        self.contents = list(contents or ["c0/content"])
        self.autosave_at = autosave_at
        self.nohidden = nohidden
        self.rules = list(rules)
        self.pool = pool
        self.disknames = list(disknames or ["d%d" % (i + 1) for i in range(ndisks)])
        self.extra_conf = list(extra_conf)
        self.tag = tag
        self.splitdirs = splitdirs  # split s > 0 of level l lives in its own directory p<l>s<s>/ (another parity disk), not beside split 0
        self.selftest = selftest    # commands run WITHOUT --test-skip-self (the start-up self test changes global raid state)
        self.uuid = uuid        # the first two data disks report a (fake) persistent UUID: the tool then trusts inode numbers

    def level_name(self, l):
        if self.z and l == 2:
            return "z-parity"
        return LEVEL_NAMES[l]

    def describe(self):
        return dict(levels=self.levels, z=self.z, ndisks=self.ndisks, disknames=self.disknames, blocksize=self.blocksize,
                    hashsize=self.hashsize, hashkind=self.hashkind, splits={str(k): v for k, v in self.splits.items()},
                    contents=self.contents, parity_limit=self.parity_limit, autosave_at=self.autosave_at,
                    nohidden=self.nohidden, rules=self.rules, pool=self.pool, extra_conf=self.extra_conf, tag=self.tag, uuid=getattr(self, "uuid", False), selftest=getattr(self, "selftest", False),
                    splitdirs=getattr(self, "splitdirs", False))

    @staticmethod
    def from_dict(d):
        d = dict(d)
        d["splits"] = {int(k): v for k, v in (d.get("splits") or {}).items()}
        return Config(**d)

    def short(self):
        s = "%s%d/%dd" % ("z" if self.z else "L", self.levels, self.ndisks)
        if self.hashsize != 16 or self.hashkind != "murmur3":
            s += "/%s%d" % (self.hashkind[0], self.hashsize)
        if self.splits:
            s += "/split" + ",".join("%d:%d" % kv for kv in sorted(self.splits.items()))
        if len(self.contents) > 1:
            s += "/c%d" % len(self.contents)
        if self.tag:
            s += "/" + self.tag
        if getattr(self, "uuid", False):
            s += "/uuid"
        if getattr(self, "selftest", False):
            s += "/selftest"
        return s

    def clone(self, **kw):
        c = Config(self.levels, self.z, self.ndisks, self.blocksize, self.hashsize, self.hashkind, self.splits,
                   self.parity_limit, self.contents, self.autosave_at, self.nohidden, self.rules, self.pool,
                   self.disknames, self.extra_conf, self.tag, getattr(self, "uuid", False), getattr(self, "selftest", False), getattr(self, "splitdirs", False))
        for k, v in kw.items():
            setattr(c, k, v)
        return c


def gc_roots(pids=None):
    """remove lab roots left behind by processes that are gone (workers are killed, not shut down, so their atexit never runs);
    with `pids`: remove the roots of exactly those processes"""
    import re
    base = scratch_base()
    try:
        names = os.listdir(base)
    except OSError:
        return 0
    n = 0
    for name in names:
        m = re.fullmatch(r"vp-(\d{7})-(\d{3})", name)
        if not m:
            continue
        pid = int(m.group(1))
        if pids is not None:
            if pid not in pids:
                continue
        else:
            try:
                os.kill(pid, 0)
                continue            # a live process owns it (or the pid was reused: left alone)
            except ProcessLookupError:
                pass
            except PermissionError:
                continue
        _rmtree_force(os.path.join(base, name))
        n += 1
    return n


class Result:
    def __init__(self, cmd, argv, rc, out, err, tags, trace, before, after, signal=None):
        self.cmd, self.argv, self.rc, self.out, self.err = cmd, argv, rc, out, err
        self.tags, self.trace, self.before, self.after, self.signal = tags, trace, before, after, signal

    def changed(self):
        """relative paths whose snapshot entry differs (created / removed / modified)"""
        if self.before is None:
            return set()
        b, a = self.before, self.after
        return {p for p in set(b) | set(a) if b.get(p) != a.get(p)}

    def text(self):
        return (self.out + self.err).decode(errors="replace")

    def brief(self):
        return dict(cmd=self.cmd, argv=self.argv[1:], rc=self.rc, signal=self.signal,
                    out=self.text()[-600:])


class TraceEntry:
    __slots__ = ("seq", "tid", "k", "call", "ret", "err", "off", "len", "path", "path2")

    def __init__(self, f):
        self.seq, self.tid, self.k = int(f[0]), int(f[1]), int(f[2])
        self.call, self.ret, self.err = f[3], int(f[4]), int(f[5])
        self.off, self.len = int(f[6]), int(f[7])
        self.path, self.path2 = _untab(f[8]), _untab(f[9]) if len(f) > 9 else ""

    def __repr__(self):
        return "%d:%s(%s off=%d len=%d)=%d" % (self.k, self.call, self.path, self.off, self.len, self.ret)


def _untab(s):
    return s.replace("\\t", "\t").replace("\\n", "\n").replace("\\\\", "\\")


def parse_trace(data):
    out = []
    for line in data.decode(errors="surrogateescape").split("\n"):
        if not line:
            continue
        f = line.split("\t")
        if len(f) < 9:
            continue
        try:
            out.append(TraceEntry(f))
        except ValueError:
            pass
    out.sort(key=lambda e: e.seq)
    return out


class Lab:
    """One scratch array.  Paths are relative to self.root; data disk i lives in <root>/<name>/."""

    def __init__(self, cfg, exe=None, seed=0, root=None, bracket=True):
        self.cfg = cfg
        self.exe = exe or build.snapraid("plain")
        self.seed = seed
        self.bracket = bracket
        # fixed-width root names: a state saved under one root can be re-based to another by a same-length replace
        self.root = root or os.path.join(scratch_base(), "vp-%07d-%03d" % (os.getpid(), next(_counter)))
        self.time = NOW
        self.versions = {}     # (disk, path, size, mtime_ns) -> list of bytes ever written with that identity
        self.nrun = 0
        self.libvp = build.libvp()
        self.history = []
        self.extra_opts = []
        self.mk()

    # ------------------------------------------------------------------ layout
    def p(self, *rel):
        return os.path.join(self.root, *rel)

    def conf_path(self):
        return self.p("etc", "snapraid.conf")

    def parity_paths(self, level):
        return self.parity_paths_cfg(self.cfg, level)

    def content_paths(self):
        return [self.p(c) for c in self.cfg.contents]

    def mk(self):
        shutil.rmtree(self.root, ignore_errors=True)
        os.makedirs(self.root)
        for d in ["etc", "log", "pool"] + list(self.cfg.disknames):
            os.makedirs(self.p(d), exist_ok=True)
        for l in range(self.cfg.levels):
            os.makedirs(self.p("p%d" % l), exist_ok=True)
            for pth in self.parity_paths(l):
                os.makedirs(os.path.dirname(pth), exist_ok=True)
        for c in self.cfg.contents:
            os.makedirs(os.path.dirname(self.p(c)), exist_ok=True)
        with open(self.p("etc", "urandom"), "wb") as f:
            f.write(hashlib.shake_256(b"urandom:%d" % self.seed).digest(4096))
        self.write_conf()

    def write_conf(self, cfg=None):
        cfg = cfg or self.cfg
        lines = []
        lines.append("blocksize %d" % cfg.blocksize)
        if cfg.hashsize != 16:
            lines.append("hashsize %d" % cfg.hashsize)
        for l in range(cfg.levels):
            lines.append("%s %s" % (cfg.level_name(l), ",".join(self.parity_paths_cfg(cfg, l))))
        for c in cfg.contents:
            lines.append("content %s" % self.p(c))
        for n in cfg.disknames:
            lines.append("data %s %s/" % (n, self.p(n)))
        if cfg.nohidden:
            lines.append("nohidden")
        for r in cfg.rules:
            lines.append(r)
        if cfg.pool:
            lines.append("pool %s" % self.p("pool"))
        lines.extend(cfg.extra_conf)
        with open(self.conf_path(), "w") as f:
            f.write("\n".join(lines) + "\n")

    def parity_paths_cfg(self, cfg, level):
        n = cfg.splits.get(level, 1)
        base = cfg.level_name(level)
        if getattr(cfg, "splitdirs", False):
            return [self.p("p%d" % level if s == 0 else "p%ds%d" % (level, s), base + (".%d" % s if s else "")) for s in range(n)]
        return [self.p("p%d" % level, base + (".%d" % s if s else "")) for s in range(n)]

    def destroy(self):
        shutil.rmtree(self.root, ignore_errors=True)

    def __enter__(self):
        return self

    def __exit__(self, *a):
        self.destroy()

    # ------------------------------------------------------------------ file operations on data disks
    def gen(self, tag, size):
        return gen(tag, size, self.seed)

    def write(self, disk, path, data, mtime_ns=None, record=True):
        fp = self.p(disk, path) if isinstance(path, str) else os.path.join(self.p(disk).encode(), path)
        os.makedirs(os.path.dirname(fp), exist_ok=True)
        if os.path.islink(fp) or os.path.isdir(fp):
            self.rm(disk, path)
        with open(fp, "wb") as f:
            f.write(data)
        if mtime_ns is None:
            mtime_ns = (T0 + self._tick()) * 10**9 + 500
        os.utime(fp, ns=(mtime_ns, mtime_ns))
        if record:
            self.versions.setdefault((disk, path, len(data), mtime_ns), [])
            v = self.versions[(disk, path, len(data), mtime_ns)]
            if data not in v:
                v.append(data)
        return mtime_ns

    def _tick(self):
        self._t = getattr(self, "_t", 0) + 7
        return self._t

    def read(self, disk, path):
        with open(self.p(disk, path), "rb") as f:
            return f.read()

    def exists(self, disk, path):
        return os.path.lexists(self.p(disk, path))

    def mtime_ns(self, disk, path):
        return os.lstat(self.p(disk, path)).st_mtime_ns

    def rm(self, disk, path):
        fp = self.p(disk, path)
        if os.path.isdir(fp) and not os.path.islink(fp):
            shutil.rmtree(fp)
        elif os.path.lexists(fp):
            os.unlink(fp)

    def mv(self, disk, path, disk2, path2):
        src, dst = self.p(disk, path), self.p(disk2, path2)
        os.makedirs(os.path.dirname(dst), exist_ok=True)
        st = os.lstat(src)
        os.rename(src, dst)
        if stat.S_ISREG(st.st_mode):
            with open(dst, "rb") as f:
                data = f.read()
            v = self.versions.setdefault((disk2, path2, st.st_size, st.st_mtime_ns), [])
            if data not in v:
                v.append(data)
            if disk == disk2:
                # a rename keeps the inode: with persistent inodes the tool carries the recorded hashes over to the new name, so
                # every content this identity was ever seen with (e.g. before a silent corruption) describes the new name too
                for old in self.versions.get((disk, path, st.st_size, st.st_mtime_ns), []):
                    if old not in v:
                        v.append(old)

    def cp(self, disk, path, disk2, path2, keep_mtime=True):
        data = self.read(disk, path)
        mt = self.mtime_ns(disk, path) if keep_mtime else None
        return self.write(disk2, path2, data, mt)

    def symlink(self, disk, path, target):
        fp = self.p(disk, path)
        os.makedirs(os.path.dirname(fp), exist_ok=True)
        if os.path.lexists(fp):
            self.rm(disk, path)
        os.symlink(target, fp)

    def hardlink(self, disk, path, disk_target_path):
        fp = self.p(disk, path)
        os.makedirs(os.path.dirname(fp), exist_ok=True)
        if os.path.lexists(fp):
            self.rm(disk, path)
        os.link(self.p(disk, disk_target_path), fp)

    def mkdir(self, disk, path):
        os.makedirs(self.p(disk, path), exist_ok=True)

    def touch(self, disk, path, mtime_ns):
        os.utime(self.p(disk, path), ns=(mtime_ns, mtime_ns))
        data = self.read(disk, path)
        v = self.versions.setdefault((disk, path, len(data), mtime_ns), [])
        if data not in v:
            v.append(data)

    # ------------------------------------------------------------------ snapshots
    def snap(self, sub=None, with_inode=False):
        """rel path -> entry; entry = ('f', size, mtime_ns, bytes[, ino, nlink]) | ('l', target) | ('d',)"""
        out = {}
        base = self.root if sub is None else self.p(sub)
        skip = {self.p("log")} if sub is None else set()

        def walk(d):
            try:
                ents = sorted(os.scandir(d), key=lambda e: e.name)
            except FileNotFoundError:
                return
            for e in ents:
                fp = e.path
                if fp in skip:
                    continue
                rel = os.path.relpath(fp, self.root)
                st = e.stat(follow_symlinks=False)
                if stat.S_ISLNK(st.st_mode):
                    out[rel] = ("l", os.readlink(fp))
                elif stat.S_ISDIR(st.st_mode):
                    out[rel] = ("d",)
                    walk(fp)
                elif stat.S_ISREG(st.st_mode):
                    try:
                        with open(fp, "rb") as f:
                            data = f.read()
                    except PermissionError:
                        data = None
                    t = ("f", st.st_size, st.st_mtime_ns, data)
                    if with_inode:
                        t = t + (st.st_ino, st.st_nlink)
                    out[rel] = t
                else:
                    out[rel] = ("?", st.st_mode)
        walk(base)
        return out

    def save(self):
        """full restorable state (includes hard link groups and modes)"""
        ents = {}
        groups = {}
        for root, dirs, files in os.walk(self.root):
            if root == self.p("log"):
                dirs[:] = []
                continue
            dirs.sort()
            for n in sorted(dirs + files):
                fp = os.path.join(root, n)
                rel = os.path.relpath(fp, self.root)
                st = os.lstat(fp)
                if stat.S_ISLNK(st.st_mode):
                    ents[rel] = ("l", os.readlink(fp))
                elif stat.S_ISDIR(st.st_mode):
                    ents[rel] = ("d", stat.S_IMODE(st.st_mode))
                else:
                    key = (st.st_dev, st.st_ino)
                    if st.st_nlink > 1 and key in groups:
                        ents[rel] = ("h", groups[key])
                    else:
                        groups[key] = rel
                        with open(fp, "rb") as f:
                            ents[rel] = ("f", f.read(), st.st_mtime_ns, stat.S_IMODE(st.st_mode))
        inodes = {rel: os.lstat(self.p(rel)).st_ino for rel, e in ents.items() if e[0] in ("f", "h")}
        return dict(ents=ents, versions={k: list(v) for k, v in self.versions.items()}, time=self.time,
                    t=getattr(self, "_t", 0), cfg=self.cfg, root=self.root, inodes=inodes, nurand=getattr(self, "nurand", 0))

    def restore(self, saved, inodes=True):
        self.content_before = None
        for n in os.listdir(self.root):
            if n == "log":
                continue
            fp = self.p(n)
            if os.path.isdir(fp) and not os.path.islink(fp):
                _rmtree_force(fp)
            else:
                os.unlink(fp)
        ents = saved["ents"]
        old_root = saved.get("root", self.root)
        if old_root != self.root:
            ents = self._rebase(ents, old_root, saved["cfg"])
        later = []
        for rel in sorted(ents):
            e = ents[rel]
            fp = self.p(rel)
            if e[0] == "d":
                os.makedirs(fp, exist_ok=True)
            elif e[0] == "l":
                os.symlink(e[1], fp)
            elif e[0] == "f":
                with open(fp, "wb") as f:
                    f.write(e[1])
                os.utime(fp, ns=(e[2], e[2]))
                if e[3] != 0o644:
                    os.chmod(fp, e[3])
            else:
                later.append((rel, e[1]))
        for rel, target in later:
            os.link(self.p(target), self.p(rel))
        if inodes and REBASE_INODES and saved.get("inodes"):
            self._rebase_inodes(saved)
        self.versions = {k: list(v) for k, v in saved["versions"].items()}
        self.time = saved["time"]
        self._t = saved["t"]
        self.nurand = saved.get("nurand", 0)
        self.cfg = saved["cfg"]

    def _rebase_inodes(self, saved):
        """the re-created data files have new inode numbers: the inode recorded for each file in the content copies is mapped
        the same way (old number -> number of the re-created file), so that a materialised state looks to the tool exactly
        like the state that was saved (same files in place), not like a disk restored from a backup.  A recorded inode
        that belonged to no file at save time is mapped to a number that belongs to no file now.  A content copy that the
        independent codec cannot reproduce byte for byte (damaged, foreign) is left alone."""
        C = contentmod
        cfg = saved["cfg"]
        per_disk = {}
        for rel, old in saved["inodes"].items():
            top = rel.split("/", 1)[0]
            if top in cfg.disknames:
                try:
                    per_disk.setdefault(top, {})[old] = os.lstat(self.p(rel)).st_ino
                except FileNotFoundError:
                    pass
        used = {n for m in per_disk.values() for n in m.values()}
        spare = [max(used | {1 << 20}) + 1000]
        for cpath in cfg.contents:
            for rel in (cpath, cpath + ".tmp"):
                fp = self.p(rel)
                if not os.path.isfile(fp) or os.path.islink(fp):
                    continue
                data = _slurp(fp)
                spans = _inode_spans(data)
                if not spans:
                    continue
                out = bytearray()
                last = 0
                changed = False
                for s0, e0, dname, ino in spans:
                    m = per_disk.setdefault(dname.decode(errors="replace"), {})
                    if ino in m:
                        new = m[ino]
                    elif ino in used:
                        spare[0] += 1
                        new = m[ino] = spare[0]
                    else:
                        new = ino
                    if new != ino:
                        out += data[last:s0] + C._b(new)
                        last = e0
                        changed = True
                if changed:
                    from . import ref
                    out += data[last:-4]
                    out += ref.crc32c(bytes(out)).to_bytes(4, "little")
                    st = os.lstat(fp)
                    with open(fp, "wb") as fh:
                        fh.write(out)
                    os.utime(fp, ns=(st.st_mtime_ns, st.st_mtime_ns))

    def _rebase(self, ents, old_root, cfg):
        """content files of format 3 record the absolute paths of the parity splits: when a saved state is
        materialised under another (same-length) root, those strings are replaced and the CRC trailer recomputed"""
        from . import ref
        assert len(old_root) == len(self.root), (old_root, self.root)
        out = dict(ents)
        o, n = old_root.encode(), self.root.encode()
        for cpath in cfg.contents:
            for rel in (cpath, cpath + ".tmp"):
                e = out.get(rel)
                if e is None or e[0] != "f" or o not in e[1] or len(e[1]) < 5:
                    continue
                body = e[1][:-4].replace(o, n)
                crc_ok = ref.crc32c(e[1][:-4]).to_bytes(4, "little") == e[1][-4:]
                data = body + (ref.crc32c(body).to_bytes(4, "little") if crc_ok else e[1][-4:])
                out[rel] = ("f", data) + tuple(e[2:])
        return out

    # ------------------------------------------------------------------ running commands
    def base_opts(self, cmd=None):
        o = ["--test-skip-device", "--test-skip-self", "--no-warnings", "--test-force-order-alpha",
             "-c", self.conf_path()]
        if getattr(self, "selftest", False) or getattr(self.cfg, "selftest", False):
            # run like a user does: the start-up self test of the raid / hash code is NOT skipped (about 0.2 s per command)
            o.remove("--test-skip-self")
        hk = self.cfg.hashkind
        if cmd == "rehash":   # a migration needs a "best" hash different from the current one
            hk = {"murmur3": "spooky2", "spooky2": "murmur3"}.get(hk, hk)
        if hk == "murmur3":
            o.append("--test-force-murmur3")
        elif hk == "spooky2":
            o.append("--test-force-spooky2")
        if self.cfg.parity_limit:
            o += ["--test-parity-limit", str(self.cfg.parity_limit)]
        if self.cfg.autosave_at:
            o += ["--test-force-autosave-at", str(self.cfg.autosave_at)]
        if getattr(self.cfg, "uuid", False) or os.environ.get("VP_FAKE_UUID") == "1":
            o.append("--test-fake-uuid")
        return o

    def env(self, extra=None, trace=True):
        e = {"PATH": os.environ.get("PATH", "/usr/bin:/bin"), "LD_PRELOAD": self.libvp, "VP_EXE": os.path.realpath(self.exe),
             "VP_ROOT": self.root, "VP_TIME": str(self.time), "VP_URANDOM": self.p("etc", "urandom"),
             "VP_STATFS": "1", "LC_ALL": "C", "TZ": "UTC"}
        if trace:
            e["VP_TRACE"] = self.p("log", "trace")
        if extra:
            e.update(extra)
        return e

    def run(self, cmd, *args, env=None, det=True, trace=True, timeout=120, bracket=None, stdin=None, log=True,
            base=None, exe=None):
        """run `snapraid <opts> cmd args`.  det=True adds the single-threaded deterministic switches."""
        argv = [exe or self.exe] + (self.base_opts(cmd) if base is None else list(base))
        if det:
            argv += ["--test-io-cache", "1", "--test-skip-multi-scan"]
        logp = self.p("log", "run.log")
        if log:
            argv += ["-l", logp]
        argv += list(self.extra_opts)
        argv += [str(a).replace("{root}", self.root) for a in args]
        argv.append(cmd)
        for f in (logp, self.p("log", "trace")):
            try:
                os.unlink(f)
            except FileNotFoundError:
                pass
        # the random source: deterministic, but fresh bytes for every command of a lineage (a hash seed drawn by `rehash` differs
        # from the one drawn by the first sync); the counter travels with saved states
        self.nurand = getattr(self, "nurand", 0) + 1
        with open(self.p("etc", "urandom"), "wb") as f:
            f.write(hashlib.shake_256(b"urandom:%d:%d" % (self.seed, self.nurand)).digest(4096))
        bracket = self.bracket if bracket is None else bracket
        before = self.snap() if bracket else None
        self.scan_versions(before)
        # the recorded state the command starts from (first existing copy), for transition oracles
        self.content_before = None
        self.content_before_cmd = len(self.history) + 1      # index (1-based) of the command this snapshot precedes
        for cp in self.content_paths():
            if os.path.isfile(cp):
                self.content_before = _slurp(cp)
                break
        e = self.env(env, trace)
        if exe:
            e["VP_EXE"] = os.path.realpath(exe)
        try:
            r = subprocess.run(argv, stdout=subprocess.PIPE, stderr=subprocess.PIPE, env=e, timeout=timeout,
                               stdin=subprocess.DEVNULL if stdin is None else stdin, cwd=self.root)
            rc, out, err = r.returncode, r.stdout, r.stderr
        except subprocess.TimeoutExpired as ex:
            rc, out, err = -999, ex.stdout or b"", (ex.stderr or b"") + b"\nTIMEOUT"
        after = self.snap() if bracket else None
        if "--test-run" in args or cmd == "touch":
            self.scan_versions(after)
        sig = -rc if rc < 0 and rc != -999 else None
        tags = taglog.Tags(_slurp(logp))
        tr = parse_trace(_slurp(self.p("log", "trace"))) if trace else []
        self.nrun += 1
        res = Result(cmd, argv, rc, out, err, tags, tr, before, after, sig)
        self.history.append((cmd,) + tuple(str(a) for a in args))
        return res

    def scan_versions(self, snap=None):
        """register every file identity currently present on the data disks in the version store
        (covers changes made behind the lab's back, e.g. by a --test-run shell command)"""
        if snap is None:
            snap = self.snap()
        for rel, e in snap.items():
            if e[0] != "f" or e[3] is None:
                continue
            top, _, path = rel.partition("/")
            if top in self.cfg.disknames and path:
                v = self.versions.setdefault((top, path, e[1], e[2]), [])
                if e[3] not in v:
                    v.append(e[3])

    # ------------------------------------------------------------------ decoded views
    def content_bytes(self, idx=None):
        """bytes of content copy idx; default: the first copy that exists (the one the tool would load)"""
        paths = self.content_paths()
        if idx is None:
            idx = next((i for i, p in enumerate(paths) if os.path.isfile(p)), 0)
        with open(paths[idx], "rb") as f:
            return f.read()

    def content(self, idx=None):
        return contentmod.decode(self.content_bytes(idx))

    def parity_stream(self, level, split_sizes=None):
        """logical parity stream of a level: concatenation of the split files (truncated to recorded sizes)"""
        out = b""
        paths = self.parity_paths(level)
        for i, pth in enumerate(paths):
            d = _slurp(pth)
            if split_sizes is not None and i < len(split_sizes) and split_sizes[i] is not None:
                d = d[:split_sizes[i]]
            out += d
        return out

    def tree(self, disk):
        """files / links / dirs below a data disk (relative to the disk root)"""
        base = self.p(disk)
        snap = self.snap(disk, with_inode=True)
        pre = disk + "/"
        return {k[len(pre):]: v for k, v in snap.items() if k.startswith(pre)}


def _slurp(p):
    try:
        with open(p, "rb") as f:
            return f.read()
    except (FileNotFoundError, IsADirectoryError):
        return b""


def _rmtree_force(p):
    def onerr(func, path, exc):
        try:
            os.chmod(os.path.dirname(path), 0o755)
            os.chmod(path, 0o755)
            func(path)
        except OSError:
            pass
    shutil.rmtree(p, onerror=onerr)
