"""Evidence files (/verif/evidence/<id>.json), replay files and known-finding handling."""
import json, os, time, sys, hashlib

VERIF = os.path.dirname(os.path.dirname(os.path.abspath(__file__)))


def _jsonable(o):
    if isinstance(o, bytes):
        try:
            return o.decode()
        except UnicodeDecodeError:
            return "hex:" + o.hex()
    if isinstance(o, (set, frozenset)):
        return sorted(_jsonable(x) for x in o)
    if isinstance(o, tuple):
        return [_jsonable(x) for x in o]
    if isinstance(o, dict):
        return {str(_jsonable(k)): _jsonable(v) for k, v in o.items()}
    if isinstance(o, list):
        return [_jsonable(x) for x in o]
    if isinstance(o, (int, float, str, bool)) or o is None:
        return o
    return repr(o)


def load_findings():
    """known_findings.txt -> {(property, key): text} for `finding:` lines only"""
    out = {}
    p = os.path.join(VERIF, "known_findings.txt")
    if not os.path.exists(p):
        return out
    for line in open(p):
        line = line.strip()
        if not line.startswith("finding:"):
            continue
        parts = line[len("finding:"):].split()
        prop = key = None
        for w in parts:
            if w.startswith("property="):
                prop = w[9:]
            elif w.startswith("key="):
                key = w[4:]
        if prop and key:
            out[(prop, key)] = line
    return out


class Ctx:
    """per-run context of one check: counters, samples, violations, deadline"""

    def __init__(self, pid, tier, seed, level, budget_s):
        self.pid, self.tier, self.seed, self.level = pid, tier, seed, level
        self.t0 = time.time()
        self.deadline = self.t0 + budget_s
        self.cov = {}
        self.samples = []
        self.assumptions = []
        self.nviol = 0
        self.known = {}
        self.findings = load_findings()
        self.exhaustive = True
        self.caps = []
        self.distinct = set()
        self.outcomes = {}
        self._nreplay = 0
        self.extra_distinct = 0      # distinct cases counted natively (e.g. executed schedules), too many to register one by one

    # ---- counters
    def add(self, key, n=1):
        self.cov[key] = self.cov.get(key, 0) + n

    def set(self, key, v):
        self.cov[key] = v

    def sample(self, s, limit=6):
        if len(self.samples) < limit:
            self.samples.append(_jsonable(s))

    def nontrivial(self, key):
        """register a distinct non-trivial case (hashable key)"""
        self.distinct.add(hashlib.blake2b(repr(key).encode(), digest_size=8).digest())

    def outcome(self, o):
        self.outcomes[o] = self.outcomes.get(o, 0) + 1

    def out_of_time(self):
        return time.time() > self.deadline

    def cap(self, why):
        self.exhaustive = False
        if why not in self.caps:
            self.caps.append(why)

    # ---- violations
    def violation(self, key, text, replay):
        """key: structural signature ('C05/xyz'); replay: json-able dict to reproduce"""
        if (self.pid, key) in self.findings:
            if key not in self.known:
                self.known[key] = 0
                print("KNOWN-FINDING: property=%s key=%s %s" % (self.pid, key, text), flush=True)
            self.known[key] += 1
            return False
        self.nviol += 1
        if self._nreplay < 20:
            d = os.environ.get("VP_REPLAY_DIR") or os.path.join(VERIF, "replay")
            os.makedirs(d, exist_ok=True)
            path = os.path.join(d, "%s-%d.json" % (self.pid, self._nreplay))
            self._nreplay += 1
            with open(path, "w") as f:
                json.dump(_jsonable(dict(property=self.pid, key=key, text=text, replay=replay)), f, indent=1)
            print("VIOLATION property=%s replay=%s" % (self.pid, path), flush=True)
            print("  key=%s %s" % (key, text), flush=True)
        return True

    # ---- output
    def write(self):
        cov = dict(self.cov)
        cov.setdefault("evaluations", 0)
        cov["distinct_nontrivial"] = len(self.distinct) + self.extra_distinct
        cov.setdefault("rule", "")
        cov["samples"] = self.samples or ["(none)"]
        cov["exhaustive"] = bool(self.exhaustive)
        if self.caps:
            cov["caps_hit"] = self.caps
        if self.outcomes:
            cov["distinct_outcomes"] = len(self.outcomes)
            cov["outcomes"] = {str(k): v for k, v in sorted(self.outcomes.items(), key=lambda kv: -kv[1])[:12]}
        if self.known:
            cov["known_findings_seen"] = dict(self.known)
        ev = dict(property_id=self.pid, tier=self.tier, seed=self.seed, level=self.level, coverage=_jsonable(cov),
                  assumptions=self.assumptions, wall_s=round(time.time() - self.t0, 2), violations=self.nviol)
        d = os.environ.get("VP_EVIDENCE_DIR") or os.path.join(VERIF, "evidence")
        os.makedirs(d, exist_ok=True)
        tmp = os.path.join(d, ".%s.json.tmp" % self.pid)
        with open(tmp, "w") as f:
            json.dump(ev, f, indent=1)
        os.replace(tmp, os.path.join(d, "%s.json" % self.pid))
        return ev
