"""ctypes front-end of native/vpref.c (independent reference implementations)."""
import ctypes, functools
from . import build

_lib = None


def lib():
    global _lib
    if _lib is None:
        _lib = ctypes.CDLL(build.native("libvpref", ["vpref.c"], shared=True))
        _lib.vp_crc32c.restype = ctypes.c_uint32
        _lib.vp_crc32c.argtypes = [ctypes.c_uint32, ctypes.c_char_p, ctypes.c_size_t]
        _lib.vp_hash.argtypes = [ctypes.c_int, ctypes.c_char_p, ctypes.c_size_t, ctypes.c_char_p, ctypes.c_char_p]
        _lib.vp_gfmul.restype = ctypes.c_uint8
        _lib.vp_gfmul.argtypes = [ctypes.c_uint8, ctypes.c_uint8]
        _lib.vp_gfinv.restype = ctypes.c_uint8
        _lib.vp_gfinv.argtypes = [ctypes.c_uint8]
        _lib.vp_parity_flat.argtypes = [ctypes.c_int, ctypes.c_int, ctypes.POINTER(ctypes.c_int), ctypes.c_char_p,
                                        ctypes.c_int, ctypes.c_char_p, ctypes.c_size_t]
    return _lib


def crc32c(data, crc=0):
    return lib().vp_crc32c(crc, data, len(data))


MURMUR3, SPOOKY2 = 1, 2
KIND = {"murmur3": MURMUR3, "spooky2": SPOOKY2, "u": MURMUR3, "k": SPOOKY2}


@functools.lru_cache(maxsize=200000)
def blockhash(kind, seed, data):
    """128-bit digest of data with the 16 byte seed; kind = 1 murmur3 / 2 spooky2"""
    out = ctypes.create_string_buffer(16)
    lib().vp_hash(kind, data, len(data), seed, out)
    return out.raw


def gfmul(a, b):
    return lib().vp_gfmul(a, b)


def gfinv(a):
    return lib().vp_gfinv(a)


def cauchy():
    m = (ctypes.c_uint8 * 256 * 6)()
    lib().vp_cauchy(m)
    return [list(m[j])[:251] for j in range(6)]


def vandermonde():
    m = (ctypes.c_uint8 * 256 * 3)()
    lib().vp_vandermonde(m)
    return [list(m[j])[:255] for j in range(3)]


def parity(mode, cols, blocks, nparity, size):
    """blocks: list of bytes (each exactly `size`), cols: generator column per block.
    returns list of nparity parity blocks. mode 0 cauchy, 1 z"""
    nd = len(blocks)
    assert all(len(b) == size for b in blocks)
    out = ctypes.create_string_buffer(nparity * size)
    if nd:
        carr = (ctypes.c_int * nd)(*cols)
        lib().vp_parity_flat(mode, nd, carr, b"".join(blocks), nparity, out, size)
    raw = out.raw
    return [raw[j * size:(j + 1) * size] for j in range(nparity)]
