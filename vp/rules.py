"""Documented include/exclude semantics (snapraid.txt 7.7 and 8), written independently of elem.c / fnmatch.c."""


def glob_match(pat, s, pathname):
    """shell-style match with * ? [...] and backslash escape; if pathname, wildcards never match '/'"""
    def m(pi, si):
        while pi < len(pat):
            c = pat[pi]
            if c == "*":
                # collapse stars
                while pi < len(pat) and pat[pi] == "*":
                    pi += 1
                if pi == len(pat):
                    return not (pathname and "/" in s[si:])
                for k in range(si, len(s) + 1):
                    if m(pi, k):
                        return True
                    if k < len(s) and pathname and s[k] == "/":
                        break
                return False
            if si >= len(s):
                return False
            if c == "?":
                if pathname and s[si] == "/":
                    return False
                pi += 1
                si += 1
            elif c == "[":
                j = pi + 1
                neg = j < len(pat) and pat[j] in "!^"
                if neg:
                    j += 1
                first = True
                ok = False
                while j < len(pat) and (first or pat[j] != "]"):
                    first = False
                    lo = pat[j]
                    if lo == "\\" and j + 1 < len(pat):
                        j += 1
                        lo = pat[j]
                    if j + 2 < len(pat) and pat[j + 1] == "-" and pat[j + 2] != "]":
                        hi = pat[j + 2]
                        if lo <= s[si] <= hi:
                            ok = True
                        j += 3
                    else:
                        if s[si] == lo:
                            ok = True
                        j += 1
                if j >= len(pat):
                    # no closing bracket: literal '['
                    if s[si] != "[":
                        return False
                    pi += 1
                    si += 1
                    continue
                if pathname and s[si] == "/":
                    return False
                if ok == neg:
                    return False
                pi = j + 1
                si += 1
            elif c == "\\" and pi + 1 < len(pat):
                if s[si] != pat[pi + 1]:
                    return False
                pi += 2
                si += 1
            else:
                if s[si] != c:
                    return False
                pi += 1
                si += 1
        return si == len(s)
    return m(0, 0)


def parse(pattern):
    """-> (is_path, is_dir, pattern without the trailing slash) or None if the manual does not allow it"""
    if not pattern:
        return None
    comps = pattern.split("/")
    is_dir = pattern.endswith("/") and len(pattern) > 1
    body = pattern[:-1] if is_dir else pattern
    if pattern == "/":
        return None
    is_path = "/" in body
    if is_path and not body.startswith("/"):
        return None                                   # PATH/FILE without the leading slash is not a documented form
    toks = body.split("/")
    if is_path:
        toks = toks[1:]
    for t in toks:
        if t == "" or set(t) <= {"."}:
            return None                               # empty, '.', '..' components
    return (is_path, is_dir, body)


def rule_matches_file(rule, path):
    """does a rule select the FILE at `path` (relative to the disk root)?"""
    is_path, is_dir, body = rule
    comps = path.split("/")
    if not is_dir:
        if is_path:
            return glob_match(body[1:], path, True)
        return glob_match(body, comps[-1], False)
    # directory rule: any ancestor directory
    for k in range(1, len(comps)):
        if is_path:
            if glob_match(body[1:], "/".join(comps[:k]), True):
                return True
        else:
            if glob_match(body, comps[k - 1], False):
                return True
    return False


def rule_matches_dir(rule, path):
    """does a rule select the DIRECTORY at `path` (itself or through an ancestor)?"""
    is_path, is_dir, body = rule
    if not is_dir:
        return False
    comps = path.split("/")
    for k in range(1, len(comps) + 1):
        if is_path:
            if glob_match(body[1:], "/".join(comps[:k]), True):
                return True
        else:
            if glob_match(body, comps[k - 1], False):
                return True
    return False


def file_included_first_match(rules, path):
    """reading A: the first rule that selects the file decides; no match -> excluded iff the last rule is an include"""
    for direction, rule in rules:
        if rule_matches_file(rule, path):
            return direction > 0
    if rules and rules[-1][0] > 0:
        return False
    return True


def dir_included(rules, path):
    """a directory is entered unless the first directory rule selecting it (or an ancestor) is an exclude"""
    for direction, rule in rules:
        if rule_matches_dir(rule, path):
            return direction > 0
    return True


def file_included_walk(rules, path):
    """reading B: 'directory patterns take everything below them': an excluded ancestor prunes the subtree"""
    comps = path.split("/")
    for k in range(1, len(comps)):
        if not dir_included(rules, "/".join(comps[:k])):
            return False
    return file_included_first_match(rules, path)


def emptydir_included(rules, path):
    for direction, rule in rules:
        if rule_matches_dir(rule, path):
            return direction > 0
    if rules and rules[-1][0] > 0:
        return False
    return True
