"""C12 monitor: which paths a command may modify, judged on BOTH the before/after snapshot and the syscall trace."""
import os
from . import content as C

READONLY = {"status", "diff", "list", "dup", "check", "devices", "test-read"}
STATE_CALLS = {"write", "pwrite", "rename", "ftruncate", "fallocate", "unlink", "rmdir", "mkdir", "link", "symlink",
               "utime", "open-create"}


def classify(L, rel):
    """'data:<disk>' | 'parity:<level>' | 'content' | 'lock' | 'pool' | 'other'"""
    full = L.p(rel)
    cps = L.content_paths()
    if full == cps[0] + ".lock":
        return "lock"
    for cp in cps:
        if full == cp or full == cp + ".tmp" or full == cp + ".lock":
            return "content"
    top = rel.split("/", 1)[0]
    if top in L.cfg.disknames:
        return "data:" + top
    if top.startswith("p") and top[1:].isdigit() and int(top[1:]) < 6:
        return "parity:" + top[1:]
    if top == "pool":
        return "pool"
    if top in ("etc", "log"):
        return "lab"
    return "other"


def touched_paths(L, res):
    """paths (relative) the command changed (snapshot) or wrote through a state-changing call (trace)"""
    out = {}
    for rel in res.changed():
        out.setdefault(rel, set()).add("snapshot")
    for e in res.trace:
        if e.call in STATE_CALLS and e.ret != -1:
            for p in ((e.path, e.path2) if e.call == "rename" else (e.path,)):
                if p and p.startswith(L.root + "/"):
                    rel = os.path.relpath(p, L.root)
                    if e.call == "open-create":
                        # opening with O_CREAT an existing file without changing it is not a modification;
                        # the snapshot decides for these
                        continue
                    if e.call == "rename" and p == e.path2:
                        pass
                    out.setdefault(rel, set()).add(e.call)
    # a path that existed neither before nor after the command (created and removed again by the command itself, e.g. the
    # unfinished file a range-limited fix cleans up) has not been modified
    if res.before is not None:
        for rel in [r for r in out if r not in res.before and r not in res.after]:
            del out[rel]
    return out


def reported_by_fix(res):
    """(disk, sub) pairs and (level, pos) pairs the fix log reports as written"""
    files, par = set(), set()
    names = {"parity": 0, "2-parity": 1, "3-parity": 2, "4-parity": 3, "5-parity": 4, "6-parity": 5, "z-parity": 2}
    for t in res.tags.lines:
        tag = t[0]
        if tag == b"fixed":
            if len(t) >= 4 and t[1].isdigit():
                files.add((t[2].decode(), t[3].decode(errors="surrogateescape")))
            elif len(t) >= 3:
                files.add((t[1].decode(), t[2].decode(errors="surrogateescape")))
        elif tag in (b"hardlink_fixed", b"symlink_fixed", b"dir_fixed"):
            files.add((t[1].decode(), t[2].decode(errors="surrogateescape")))
        elif tag == b"status" and len(t) >= 4 and t[1] in (b"recovered", b"unrecoverable"):
            files.add((t[2].decode(), t[3].decode(errors="surrogateescape")))
        elif tag == b"parity_fixed" and len(t) >= 3:
            par.add((names.get(t[2].decode(), t[2].decode()), int(t[1])))
    return files, par


def violations(L, cmd, res, c_before=None, zero_nsec=None):
    """permission matrix of C12 for one executed command; returns list of dicts"""
    v = []
    tp = touched_paths(L, res)
    cls = {rel: classify(L, rel) for rel in tp}
    allowed_always = {"lock", "lab"}
    if cmd in READONLY:
        for rel, how in tp.items():
            if cls[rel] not in allowed_always:
                v.append(dict(kind="readonly-command-modified", cmd=cmd, path=rel, how=sorted(how)))
    elif cmd == "scrub" or cmd == "rehash":
        for rel, how in tp.items():
            if cls[rel] not in allowed_always and cls[rel] != "content":
                v.append(dict(kind="scrub-modified-non-content", cmd=cmd, path=rel, how=sorted(how)))
    elif cmd == "sync":
        for rel, how in tp.items():
            k = cls[rel]
            if k in allowed_always or k == "content" or k.startswith("parity:"):
                continue
            v.append(dict(kind="sync-modified-%s" % k.split(":")[0], cmd=cmd, path=rel, how=sorted(how)))
    elif cmd == "fix":
        files, par = reported_by_fix(res)
        rep_paths = set()
        for d, sub in files:
            rep_paths.add("%s/%s" % (d, sub))
            rep_paths.add("%s/%s.unrecoverable" % (d, sub))
        # a hard link shares the inode of its target: repairing the target changes what the link shows
        if c_before is not None:
            for d in c_before.disks.values():
                for kind, sub, to in d.links:
                    if kind == "a":
                        dn = d.name.decode()
                        if "%s/%s" % (dn, to.decode(errors="surrogateescape")) in rep_paths:
                            rep_paths.add("%s/%s" % (dn, sub.decode(errors="surrogateescape")))
        bs = (c_before.block_size if c_before is not None else L.cfg.blocksize * 1024)
        for rel, how in tp.items():
            k = cls[rel]
            if k in allowed_always:
                continue
            if k == "content":
                v.append(dict(kind="fix-modified-content", cmd=cmd, path=rel, how=sorted(how)))
            elif k.startswith("data:"):
                ok = rel in rep_paths or any(r.startswith(rel + "/") for r in rep_paths)
                if not ok:
                    v.append(dict(kind="fix-wrote-unreported-path", cmd=cmd, path=rel, how=sorted(how)))
            elif k.startswith("parity:"):
                # blocks are judged below; a parity file must never get SHORTER by a fix (it holds synced stripes)
                b, a = res.before.get(rel), res.after.get(rel)
                if b is not None and b[0] == "f" and (a is None or a[1] < b[1]):
                    v.append(dict(kind="fix-shortened-parity-file", cmd=cmd, path=rel, before=b[1], after=None if a is None else a[1]))
            else:
                v.append(dict(kind="fix-modified-%s" % k, cmd=cmd, path=rel, how=sorted(how)))
        # parity blocks written must be reported parity_fixed
        for e in res.trace:
            if e.call == "pwrite" and e.ret > 0:
                rel = os.path.relpath(e.path, L.root)
                k = classify(L, rel)
                if k.startswith("parity:"):
                    lvl = int(k.split(":")[1])
                    off = e.off
                    if c_before is not None and c_before.parity.get(lvl, {}).get("splits"):
                        paths = L.parity_paths(lvl)
                        if e.path in paths:
                            off += sum(s[2] for s in c_before.parity[lvl]["splits"][:paths.index(e.path)])
                    pos = off // bs
                    if (lvl, pos) not in par:
                        v.append(dict(kind="fix-wrote-unreported-parity-block", cmd=cmd, level=lvl, pos=pos))
    elif cmd == "pool":
        for rel, how in tp.items():
            if cls[rel] not in allowed_always and cls[rel] != "pool":
                v.append(dict(kind="pool-modified-outside-pool", cmd=cmd, path=rel, how=sorted(how)))
    elif cmd == "touch":
        for rel, how in tp.items():
            k = cls[rel]
            if k in allowed_always or k == "content":
                continue
            if k.startswith("data:"):
                b, a = res.before.get(rel), res.after.get(rel)
                d, sub = rel.split("/", 1)
                only_time = (b is not None and a is not None and b[0] == "f" and a[0] == "f" and b[1] == a[1]
                             and b[3] == a[3] and b[2] // 10**9 == a[2] // 10**9)
                was_zero = zero_nsec is not None and (d, sub) in zero_nsec
                non_time_calls = how - {"snapshot", "utime"}
                if not only_time or not was_zero or non_time_calls:
                    v.append(dict(kind="touch-modified-data", cmd=cmd, path=rel, how=sorted(how), only_time=only_time,
                                  recorded_nsec_zero=was_zero))
            else:
                v.append(dict(kind="touch-modified-%s" % k.split(":")[0], cmd=cmd, path=rel, how=sorted(how)))
    return v


def recorded_zero_nsec(c):
    out = set()
    for d in c.disks.values():
        for f in d.files:
            if f.mtime_nsec == 0:
                out.add((d.name.decode(), f.sub.decode(errors="surrogateescape")))
    return out
