"""arraymc: explicit-state search over operation histories; the transition function is the real CLI.

Ops are plain tuples (picklable, JSON-able => replayable):
  ("write", disk, path, size, v[, nsec])   create / overwrite with deterministic bytes gen(path:size:v)
  ("rm", disk, path) ("mv", d, p, d2, p2) ("cp", d, p, d2, p2) ("touch", d, p, v)
  ("append", d, p, k) ("trunc", d, p, size) ("symlink", d, p, target) ("hardlink", d, p, target_path)
  ("mkdir", d, p) ("rmdir", d, p) ("silent", d, p, offset)
  ("cmd", name, arg...)                   a snapraid command, e.g. ("cmd", "sync", "-B", "1")
  ("cmd-eio", glob, n, name, arg...)      the same with the n-th pread of a file matching root/glob failing with EIO
  ("clock", delta)                        advance the frozen clock
"""
import hashlib, os, json
from . import lab as labmod, content as C, parity as paritymod

SIZES = [0, 1, 1023, 1024, 1025, 2500, 5000]


def file_mtime_ns(path, size, v, nsec=500):
    h = int.from_bytes(hashlib.blake2b(("%s:%d:%d" % (path, size, v)).encode(errors="surrogateescape"), digest_size=3).digest(), "big")
    return (labmod.T0 + 1000 + h % 100000) * 10**9 + nsec


def file_bytes(lab, path, size, v):
    return lab.gen("%s:%d:%d" % (path, size, v), size)


def _isreg(lab, d, p):
    fp = lab.p(d, p)
    return os.path.isfile(fp) and not os.path.islink(fp)


def apply_op(lab, op, **runkw):
    """apply one op; returns a lab.Result for commands, None for file operations"""
    k = op[0]
    if k == "write":
        _, d, p, size, v = op[:5]
        nsec = op[5] if len(op) > 5 else 500
        lab.write(d, p, file_bytes(lab, p, size, v), file_mtime_ns(p, size, v, nsec))
    elif k == "writeat":
        _, d, p, size, v, mt = op
        lab.write(d, p, file_bytes(lab, p, size, v), mt)
    elif k == "rm":
        lab.rm(op[1], op[2])
    elif k == "mv":
        if lab.exists(op[1], op[2]):
            lab.mv(op[1], op[2], op[3], op[4])
    elif k == "cp":
        if _isreg(lab, op[1], op[2]):
            lab.cp(op[1], op[2], op[3], op[4])
    elif k == "dupdata":
        # a new file (new name, fresh time-stamp: never taken for a copy) holding exactly the bytes of an existing one
        if _isreg(lab, op[1], op[2]):
            data = lab.read(op[1], op[2])
            lab.write(op[3], op[4], data, file_mtime_ns(op[4], len(data), 77))
    elif k == "resizekeep":
        # the file grows (k > 0: bytes appended) or shrinks (k < 0) IN PLACE - same inode - and gets its old time-stamp back:
        # only the size tells
        _, d, p_, kk = op
        if _isreg(lab, d, p_):
            fp = lab.p(d, p_)
            st = os.lstat(fp)
            with open(fp, "r+b") as f:
                if kk > 0:
                    f.seek(0, 2)
                    f.write(lab.gen("resizekeep:%s:%d" % (p_, st.st_size), kk))
                else:
                    f.truncate(max(1, st.st_size + kk))
            os.utime(fp, ns=(st.st_mtime_ns, st.st_mtime_ns))
    elif k == "swapinodes":
        # two files of one disk exchange their inode numbers: names, bytes, sizes and time-stamps all stay what they were
        # (rename both, then put the bytes back in place) - what a restore onto a fresh file system does to inode numbers
        _, d, p1, p2 = op
        if _isreg(lab, d, p1) and _isreg(lab, d, p2):
            f1, f2 = lab.p(d, p1), lab.p(d, p2)
            s1, s2 = os.lstat(f1), os.lstat(f2)
            b1, b2 = open(f1, "rb").read(), open(f2, "rb").read()
            tmp = f1 + ".swap-tmp"
            os.rename(f1, tmp); os.rename(f2, f1); os.rename(tmp, f2)
            for fp, data, st in ((f1, b1, s1), (f2, b2, s2)):
                with open(fp, "r+b") as f:
                    f.truncate(0)
                    f.write(data)
                os.utime(fp, ns=(st.st_mtime_ns, st.st_mtime_ns))
    elif k == "silent":
        # silent corruption: one byte changes in place (same inode, size and time-stamp); op = ("silent", disk, path, offset) with a
        # negative offset counted from the end
        if _isreg(lab, op[1], op[2]):
            fp = lab.p(op[1], op[2])
            st = os.lstat(fp)
            if st.st_size:
                off = op[3] % st.st_size
                with open(fp, "r+b") as f:
                    f.seek(off)
                    b = f.read(1)
                    f.seek(off)
                    f.write(bytes([b[0] ^ 0x5a]))
                os.utime(fp, ns=(st.st_mtime_ns, st.st_mtime_ns))
    elif k == "collide":
        # ("collide", disk, path, target, v): a one-block file whose REDUCED hash (hashsize 2) under the array's hash and seed equals
        # "same" = the hash recorded for block 0 of the file now recorded under that path, "zero" / "invalid" = the all-00 / all-ff
        # marker values.  Found by plain enumeration of a deterministic stream (about 65536 trials).
        from . import content as _C, parity as _P
        _, d, p_, target, v = op
        c = lab.content()
        if c.hash_size != 2:
            raise RuntimeError("collide needs hashsize 2")
        if target == "same":
            f = next(x for x in c.disks[d.encode()].files if x.sub == p_.encode())
            want, pos = f.blocks[0][2], f.blocks[0][1]
            avoid = lab.read(d, p_)[:c.block_size]
        else:
            want, pos, avoid = (b"\0\0" if target == "zero" else b"\xff\xff"), c.blockmax, None
        i = 0
        while True:
            data = lab.gen("collide:%s:%s:%d" % (p_, v, i), c.block_size)
            if data != avoid and _P.block_hash(c, pos, data) == want:
                break
            i += 1
            if i > 3000000:
                raise RuntimeError("no colliding block found")
        lab.write(d, p_, data, file_mtime_ns(p_, len(data), 300 + v))
    elif k == "touch":
        if _isreg(lab, op[1], op[2]):
            st = os.lstat(lab.p(op[1], op[2]))
            lab.touch(op[1], op[2], file_mtime_ns(op[2], st.st_size, 100 + op[3]))
    elif k == "append":
        if _isreg(lab, op[1], op[2]):
            old = lab.read(op[1], op[2])
            data = old + lab.gen("%s:app:%d" % (op[2], len(old)), op[3])
            lab.write(op[1], op[2], data, file_mtime_ns(op[2], len(data), 50))
    elif k == "trunc":
        if _isreg(lab, op[1], op[2]):
            old = lab.read(op[1], op[2])
            data = old[:op[3]]
            lab.write(op[1], op[2], data, file_mtime_ns(op[2], len(data), 51))
    elif k == "symlink":
        lab.symlink(op[1], op[2], op[3])
    elif k == "hardlink":
        tp = lab.p(op[1], op[3])
        if os.path.isfile(tp) and not os.path.islink(tp):
            lab.hardlink(op[1], op[2], op[3])
    elif k == "mkdir":
        lab.mkdir(op[1], op[2])
    elif k == "rmdir":
        lab.rm(op[1], op[2])
    elif k == "clock":
        lab.time += op[1]
    elif k == "emptydisk":
        from . import faults
        faults.lose_disk(lab, op[1])
    elif k == "dropdisk":
        names = [n for n in lab.cfg.disknames if n != op[1]]
        lab.cfg = lab.cfg.clone(disknames=names, ndisks=len(names))
        lab.write_conf()
    elif k == "adddisk":
        # ("adddisk", name, index): a new, empty data disk enters the configuration at that place of the list
        names = list(lab.cfg.disknames)
        names.insert(op[2], op[1])
        os.makedirs(lab.p(op[1]), exist_ok=True)
        lab.cfg = lab.cfg.clone(disknames=names, ndisks=len(names))
        lab.write_conf()
    elif k == "cmd":
        return lab.run(op[1], *op[2:], **runkw)
    elif k == "cmd-eio":
        # ("cmd-eio", glob below the root, n, command, args...): the command runs with the n-th pread on a matching file failing (EIO)
        kw = dict(runkw)
        env = dict(kw.pop("env", None) or {})
        env["VP_FAIL"] = "%s/%s:pread:%d:5" % (lab.root, op[1], op[2])
        return lab.run(op[3], *op[4:], env=env, **kw)
    else:
        raise ValueError("unknown op %r" % (op,))
    return None


def canon(lab, with_content=True):
    """canonical, hashable description of the array state (see DESIGN 2.5)"""
    items = []
    snap = lab.snap()
    for rel, e in sorted(snap.items()):
        top = rel.split("/", 1)[0]
        if top in ("etc", "log"):
            continue
        if rel.endswith(".lock"):
            continue
        if top in lab.cfg.disknames or top == "pool":
            if e[0] == "f":
                items.append((rel, "f", e[1], e[2], hashlib.blake2b(e[3] or b"", digest_size=8).hexdigest()))
            else:
                items.append((rel,) + tuple(e))
        elif top.startswith("p") and e[0] == "f":
            items.append((rel, "f", e[1], hashlib.blake2b(e[3] or b"", digest_size=8).hexdigest()))
        elif e[0] == "f":
            # content copies: decoded, inode numbers dropped
            try:
                c = C.decode(e[3])
                items.append((rel, "content", hashlib.blake2b(repr(c.model()).encode(), digest_size=8).hexdigest()))
            except C.ContentError:
                items.append((rel, "raw", hashlib.blake2b(e[3] or b"", digest_size=8).hexdigest()))
    if getattr(lab.cfg, "uuid", False):
        # persistent inodes are observable by the tool: the numbers themselves are not part of the state, but the relation "this
        # file on disk carries the inode recorded for that path" is (it decides between equal / moved / restored)
        try:
            c = lab.content()
        except Exception:
            c = None
        if c is not None:
            for dn in lab.cfg.disknames[:2]:
                d = c.disks.get(dn.encode())
                owner = {f.inode: f.sub for f in d.files} if d else {}
                for rel, e in sorted(snap.items()):
                    if e[0] == "f" and rel.startswith(dn + "/"):
                        try:
                            ino = os.lstat(lab.p(rel)).st_ino
                        except OSError:
                            continue
                        items.append((rel, "inode-of", owner.get(ino)))
    items.append(("clock", lab.time))
    return hashlib.blake2b(repr(items).encode(), digest_size=12).hexdigest()


# ----------------------------------------------------------------------------- generic ground truth helpers

def data_tree(lab):
    """{disk: {relpath: entry}} entries as in Lab.snap (with inode,nlink for files)"""
    return {d: lab.tree(d) for d in lab.cfg.disknames}


def tree_equal(lab, want, ignore_mtime=(), disks=None, allow_extra=None):
    """compare the data trees with a saved data_tree(); returns list of differences"""
    diffs = []
    for d in (disks or lab.cfg.disknames):
        now = lab.tree(d)
        w = want[d]
        for p in sorted(set(now) | set(w)):
            a, b = w.get(p), now.get(p)
            if a is None:
                if allow_extra and allow_extra(d, p):
                    continue
                diffs.append((d, p, "unexpected", b[:3] if b else b))
            elif b is None:
                diffs.append((d, p, "missing", a[:3]))
            elif a[0] != b[0]:
                diffs.append((d, p, "kind", a[0], b[0]))
            elif a[0] == "f":
                if a[3] != b[3]:
                    diffs.append((d, p, "bytes", a[1], b[1]))
                elif a[2] != b[2] and (d, p) not in ignore_mtime:
                    diffs.append((d, p, "mtime", a[2], b[2]))
            elif a[0] == "l" and a[1] != b[1]:
                diffs.append((d, p, "target", a[1], b[1]))
        # hard link identity: files that shared an inode must share one again
        groups_w = {}
        for p, e in w.items():
            if e[0] == "f" and e[5] > 1:
                groups_w.setdefault(e[4], set()).add(p)
        for ino, ps in groups_w.items():
            inos = {now[p][4] for p in ps if p in now and now[p][0] == "f"}
            if len(inos) > 1:
                diffs.append((d, tuple(sorted(ps)), "hardlink-identity"))
    return diffs


def c06(lab, where):
    """evaluate the C06 oracle on the current state; returns list of violation dicts"""
    try:
        c = lab.content()
    except FileNotFoundError:
        return []
    except C.ContentError as e:
        return [dict(kind="content-undecodable", err=str(e), where=where)]
    out = paritymod.check(lab, c)
    cb = getattr(lab, "content_before", None)
    if cb:
        try:
            c0 = C.decode(cb)
        except C.ContentError:
            c0 = None
        if c0 is not None and c0.block_size == c.block_size and c0.hash_size == c.hash_size:
            out += paritymod.deleted_continuity(c0, c)
            hist = getattr(lab, "history", None)
            if hist and getattr(lab, "content_before_cmd", None) == len(hist):
                out += paritymod.info_continuity(c0, c, hist[-1][0])
    for o in out:
        o["where"] = where
    return out


# ----------------------------------------------------------------------------- BFS engine

_worker_lab = {}


def worker_lab(cfg, seed=0, exe=None):
    """one Lab per worker process, reused between jobs"""
    key = os.getpid()
    L = _worker_lab.get(key)
    if L is None:
        L = labmod.Lab(cfg, seed=seed, exe=exe)
        _worker_lab[key] = L
        import atexit
        atexit.register(L.destroy)
    return L


def materialize(cfg, saved, seed=0):
    L = worker_lab(cfg, seed)
    L.cfg = cfg
    L.content_before = None
    L.selftest = False
    if saved is None:
        L.mk()
        L.nurand = 0
        L.versions = {}
        L.time = labmod.NOW
        L._t = 0
    else:
        L.restore(saved)
        L.write_conf()
    L.history = []
    L.extra_opts = []
    return L


_CURRENT = None


def _job_global(job):
    """self-contained transition job: (cfg, seed, step_fn, saved, hist, op)"""
    cfg, seed, step_fn, saved, hist, op = job
    L = materialize(cfg, saved, seed)
    res = apply_op(L, op) if op is not None else None
    viols, info = step_fn(L, op, res, hist + ([op] if op is not None else []))
    return dict(canon=canon(L), saved=L.save(), viols=viols, info=info, rc=None if res is None else res.rc)


def make_jobs(ex, triples):
    return [(ex.cfg, ex.seed, ex.step_fn, saved, hist, op) for saved, hist, op in triples]


_INTERN = {}


def intern_saved(saved):
    """identical byte strings (file contents recur in thousands of states) are kept once in the parent"""
    ents = saved["ents"]
    for k, e in ents.items():
        if e[0] == "f":
            b = e[1]
            ents[k] = (e[0], _INTERN.setdefault(b, b)) + tuple(e[2:])
    vs = saved["versions"]
    for k, lst in vs.items():
        vs[k] = [_INTERN.setdefault(b, b) for b in lst]
    return saved


class Explorer:
    """Breadth first search over op sequences from an initial state.

    step_fn(lab, op, hist) -> (violations list, info dict)  is called in a worker after the op was applied
    (it receives the Result via info); alphabet_fn(hist, info) -> iterable of ops for the next level.
    """

    def __init__(self, ctx, cfg, init_ops, alphabet_fn, step_fn, depth, label="", dedup=True, seed=0):
        self.ctx, self.cfg, self.init_ops, self.alphabet_fn, self.step_fn = ctx, cfg, init_ops, alphabet_fn, step_fn
        self.depth, self.label, self.dedup, self.seed = depth, label, dedup, seed
        self.states = 0
        self.transitions = 0
        self.maxdepth = 0

    def _job(self, job):
        saved, hist, op = job
        L = materialize(self.cfg, saved, self.seed)
        res = apply_op(L, op) if op is not None else None
        viols, info = self.step_fn(L, op, res, hist + ([op] if op is not None else []))
        return dict(canon=canon(L), saved=L.save(), viols=viols, info=info,
                    rc=None if res is None else res.rc)

    def _init(self, _):
        L = materialize(self.cfg, None, self.seed)
        viols = []
        for op in self.init_ops:
            res = apply_op(L, op)
            if res is not None and res.rc != 0:
                raise RuntimeError("initial op %r failed rc=%s\n%s" % (op, res.rc, res.text()))
        v, info = self.step_fn(L, None, None, list(self.init_ops))
        return dict(canon=canon(L), saved=L.save(), viols=v, info=info, rc=None)

    def run(self, on_violation):
        from . import par
        r0 = self._init(None)
        seen = {r0["canon"]}
        self.states = 1
        for v in r0["viols"]:
            on_violation(v, list(self.init_ops))
        frontier = [(r0["saved"], list(self.init_ops), r0["info"])]
        for depth in range(1, self.depth + 1):
            jobs = []
            for saved, hist, info in frontier:
                for op in self.alphabet_fn(hist, info):
                    jobs.append((saved, hist, op))
            if not jobs:
                break
            nxt = []
            level = {}
            done = 0
            for job, r in par.pmap(_job_global, make_jobs(self, jobs), deadline=self.ctx.deadline):
                job = job[3:]
                done += 1
                self.transitions += 1
                hist = job[1] + [job[2]]
                for v in r["viols"]:
                    on_violation(v, hist)
                self.ctx.outcome((job[2][0], job[2][1] if job[2][0] == "cmd" else "", r["rc"]))
                if r["info"].get("stop"):
                    continue
                if not self.dedup:
                    self.states += 1
                    nxt.append((intern_saved(r["saved"]), hist, r["info"]))
                    continue
                if r["canon"] in seen:
                    continue
                # completion order is not fixed: the representative of a class is its smallest history of this depth
                cur = level.get(r["canon"])
                if cur is None or json.dumps(hist, default=str) < json.dumps(cur[1], default=str):
                    level[r["canon"]] = (intern_saved(r["saved"]), hist, r["info"])
            seen.update(level)
            self.states += len(level)
            nxt.extend(level.values())
            if os.environ.get("VP_DUMP_CLASSES"):
                # debugging aid: the classes of this depth with their representative histories (to compare two runs)
                with open(os.path.join(os.environ["VP_DUMP_CLASSES"], "%s.d%d.json" % (self.label.replace("/", "_"), depth)), "w") as fh:
                    json.dump(sorted((str(k), v_[1]) for k, v_ in level.items()), fh, default=str)
            if done < len(jobs):
                self.ctx.cap("%s: deadline hit at depth %d (%d of %d transitions of this depth done)" % (
                    self.label, depth, done, len(jobs)))
                break
            self.maxdepth = depth
            # deterministic order of the next frontier regardless of completion order
            nxt.sort(key=lambda t: json.dumps(t[1], default=str))
            frontier = nxt
        return self
