"""crashmc: enumeration of crash / fault points of one command.

reference(L, cmd) runs the command once with tracing and returns the numbered list of its state-changing
calls; kill_points() yields (k, mode) for every call index and applicable mode.
"""
from . import explore as X

WRITE_CALLS = ("write", "pwrite")


def sc_calls(trace):
    """state-changing calls (k >= 0) in index order; KILL markers are dropped"""
    out = {}
    for e in trace:
        if e.k >= 0 and not e.call.startswith("KILL"):
            out[e.k] = e
    return [out[k] for k in sorted(out)]


def kill_points(calls, modes=("before", "after", "torn")):
    for e in calls:
        for m in modes:
            if m == "torn" and (e.call not in WRITE_CALLS or e.len < 2):
                continue
            yield e.k, m


def run_killed(L, cmd, args, k, mode, **kw):
    """run the command with VP_KILL; returns the Result (signal 9 expected)"""
    return L.run(cmd, *args, env={"VP_KILL": "%d:%s" % (k, mode)}, **kw)


def prefix_matches(ref_calls, res, k, root):
    """the killed run must have issued exactly the reference's calls 0..k-1 (determinism guard)"""
    got = sc_calls(res.trace)
    want = ref_calls[:k]
    a = [(e.call, e.path) for e in got[:k]]
    b = [(e.call, e.path) for e in want]
    return a == b
