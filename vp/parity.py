"""The C06 oracle: recorded-synced stripes have valid parity; map / hash sanity.

Everything is recomputed from (a) the independently decoded content file, (b) the lab's
version store (what bytes each file identity had when the lab wrote it) and (c) the
reference GF(2^8) generator of native/vpref.c.  No snapraid code is involved.
"""
from . import ref, content as C


def logical_parity(lab, c, level):
    """bytes of the logical parity stream of `level` as addressed by the recorded split sizes"""
    p = c.parity.get(level)
    paths = lab.parity_paths(level)
    if p is None or p["splits"] is None:
        return lab.parity_stream(level)
    out = b""
    n = len(p["splits"])
    for i, (path, uuid, size) in enumerate(p["splits"]):
        if i >= len(paths):
            break
        with_size = size
        try:
            with open(paths[i], "rb") as f:
                d = f.read()
        except FileNotFoundError:
            d = b""
        out += d[:with_size]
    return out


def deleted_continuity(c0, c1):
    """transition oracle on the recorded state: the hash kept for a DELETED position (the only description left of what the
    parity still contains there) is either the hash recorded at that very (disk, position) before the command - whatever
    its state was - or the INVALID marker.  Returns violation dicts."""
    v = []
    inv = None
    for name, d1 in c1.disks.items():
        if not d1.deleted:
            continue
        d0 = c0.disks.get(name)
        prev = {}
        if d0 is not None:
            prev.update(d0.deleted)
            for f in d0.files:
                for st, pos, h in f.blocks:
                    prev[pos] = h
        for pos, h in d1.deleted.items():
            if h == b"\0" * len(h):
                continue
            if pos not in prev:
                v.append(dict(kind="deleted-block-on-a-position-never-recorded", disk=name.decode(), pos=pos))
            elif prev[pos] != h:
                v.append(dict(kind="deleted-hash-not-inherited", disk=name.decode(), pos=pos, recorded=h.hex(), before=prev[pos].hex()))
    return v


def info_continuity(c0, c1, cmd):
    """transition oracle on the per-stripe books for the commands that must not touch them: `rehash` only raises the rehash
    flag (check time, bad mark and never-scrubbed mark stay), `touch` changes nothing there.  Returns violation dicts."""
    v = []
    if cmd not in ("rehash", "touch") or c0.blockmax != c1.blockmax:
        return v
    for pos in range(min(len(c0.info), len(c1.info))):
        a, b = c0.info[pos], c1.info[pos]
        if a is None or b is None:
            if a != b:
                v.append(dict(kind="info-word-appeared-or-vanished", cmd=cmd, pos=pos, before=a, after=b))
            continue
        if (a[0], a[1], a[3]) != (b[0], b[1], b[3]) or (cmd == "touch" and a[2] != b[2]) or (cmd == "rehash" and a[2] and not b[2]):
            v.append(dict(kind="books-changed-by-%s" % cmd, pos=pos, before=a, after=b,
                          fields="(check time, bad, rehash, never scrubbed)"))
    return v[:8]


def find_version(lab, c, disk, f, only_hash_of_block=None, any_stamp=False):
    """bytes of the version of file f (content record) that was synced, or None.
    Candidates come from the version store by identity; the recorded BLK/REP hashes pick among them.
    any_stamp: every version this path ever had with this size, whatever its time-stamp (the recorded stamp can be one no version
    ever carried: `touch` gives a record the new sub-second part while its seconds stay those of the synced version)"""
    sub = f.sub.decode(errors="surrogateescape")
    cands = []
    for (d, path, size, mt), vs in lab.versions.items():
        if d != disk or size != f.size:
            continue
        pth = path if isinstance(path, str) else path.decode(errors="surrogateescape")
        if pth != sub:
            continue
        if not any_stamp:
            if mt // 10**9 != f.mtime_sec:
                continue
            if f.mtime_nsec is not None and mt % 10**9 != f.mtime_nsec:
                continue
        for x in vs:
            if x not in cands:
                cands.append(x)
    return cands


def block_hash(c, pos, data):
    """independent hash of one block as it must be recorded for stripe `pos`"""
    info = c.info[pos] if pos < len(c.info) else None
    if info is not None and info[2] and c.prevhash is not None:
        kind, seed = c.prevhash, c.prevseed
    else:
        kind, seed = c.hash, c.seed
    return ref.blockhash(ref.KIND[kind], seed, data)[:c.hash_size]


def pick_version(c, f, cands, states=(C.BLK,)):
    """choose the candidate whose blocks match every recorded hash of a block in `states`"""
    bs = c.block_size
    for data in cands:
        ok = True
        for i, (st, pos, h) in enumerate(f.blocks):
            if st in states:
                if block_hash(c, pos, data[i * bs:(i + 1) * bs]) != h:
                    ok = False
                    break
        if ok:
            return data
    return None


def check(lab, c=None, z=None):
    """returns list of violation dicts (empty = C06 holds on the current on-disk state)"""
    if c is None:
        c = lab.content()
    z = lab.cfg.z if z is None else z
    bs = c.block_size
    v = []
    # --- map sanity
    tab = c.stripe_table()
    for pos, per in tab.items():
        for dname, ents in per.items():
            if len(ents) > 1:
                v.append(dict(kind="shared-position", pos=pos, disk=dname.decode(), n=len(ents)))
    for d in c.disks.values():
        for f in d.files:
            nb = (f.size + bs - 1) // bs
            if len(f.blocks) != nb:
                v.append(dict(kind="unmapped-block", disk=d.name.decode(), file=repr(f.sub)))
            last = -1
            for st, pos, h in f.blocks:
                if pos <= last:
                    v.append(dict(kind="positions-not-increasing", disk=d.name.decode(), file=repr(f.sub)))
                    break
                last = pos
                if pos >= c.blockmax:
                    v.append(dict(kind="position-beyond-blockmax", disk=d.name.decode(), file=repr(f.sub)))
    names = [m["name"] for m in c.maps]
    if len(set(names)) != len(names) or len({m["pos"] for m in c.maps}) != len(c.maps):
        v.append(dict(kind="duplicate-map"))
    # --- versions
    ver = {}

    def version(dname, f):
        k = (dname, f.sub)
        if k not in ver:
            cands = find_version(lab, c, dname.decode(), f)
            got = pick_version(c, f, cands)
            if got is None:
                cands = find_version(lab, c, dname.decode(), f, any_stamp=True)
                got = pick_version(c, f, cands)
            ver[k] = (got, len(cands))
        return ver[k]

    # --- hash sanity for BLK blocks (this is what identifies 'the synced contents')
    for d in c.disks.values():
        for f in d.files:
            if not f.blocks:
                continue
            if not any(st == C.BLK for st, _, _ in f.blocks):
                continue
            data, ncand = version(d.name, f)
            if data is None:
                v.append(dict(kind="hash-mismatch", disk=d.name.decode(), file=repr(f.sub), size=f.size,
                              mtime=(f.mtime_sec, f.mtime_nsec), candidates=ncand))
    # --- parity
    levels = sorted(c.parity)
    streams = {l: logical_parity(lab, c, l) for l in levels}
    posmap = {m["name"]: m["pos"] for m in c.maps}
    nchecked = 0
    for pos in sorted(tab):
        per = tab[pos]
        states = [e[0] for ents in per.values() for e in ents]
        if not states or any(s != C.BLK for s in states):
            continue
        blocks, cols, bad = [], [], False
        for dname, ents in per.items():
            st, f, idx, h = ents[0]
            data, ncand = version(dname, f)
            if data is None:
                bad = True
                break
            b = data[idx * bs:(idx + 1) * bs]
            blocks.append(b + b"\0" * (bs - len(b)))
            cols.append(posmap[dname])
        if bad:
            continue  # already reported as hash mismatch
        want = ref.parity(1 if z else 0, cols, blocks, len(levels), bs)
        nchecked += 1
        for j, l in enumerate(levels):
            got = streams[l][pos * bs:(pos + 1) * bs]
            if len(got) < bs:
                v.append(dict(kind="parity-too-small", pos=pos, level=l, have=len(streams[l])))
            elif got != want[j]:
                v.append(dict(kind="parity-mismatch", pos=pos, level=l))
    check.last_checked = nchecked
    return v


check.last_checked = 0
