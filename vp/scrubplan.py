"""Documented scrub selection (snapraid.txt 5.7 / -p / -o), written independently of scrub.c.

select(info, plan, now, older_days) -> (must, may):
  must = stripes every conforming scrub verifies, may = stripes a conforming scrub is allowed to verify.
info[pos] = None | (time, bad, rehash, justsynced)
"""
import math


def select(info, plan, now, older_days=None, blockmax=None):
    used = {i for i, v in enumerate(info) if v is not None}
    bad = {i for i in used if info[i][1]}
    blockmax = len(info) if blockmax is None else blockmax
    if plan == "full":
        return set(used), set(used)
    if plan == "new":
        s = {i for i in used if info[i][3]} | bad
        return s, set(s)
    if plan == "bad":
        return set(bad), set(bad)
    # percentage
    p = 100.0 / 12 if plan is None else float(plan)
    days = 10 if older_days is None else older_days
    limit = math.ceil(p * blockmax / 100.0 - 1e-9)
    agelimit = now - days * 86400
    eligible = sorted((info[i][0], i) for i in used if i not in bad and info[i][0] <= agelimit)
    # the tool counts bad stripes in the quota too; anything from 0 extra up to `limit` oldest eligible is conforming,
    # but the oldest-first rule makes every eligible stripe strictly older than the limit-th one mandatory when the
    # quota is not consumed by ties
    may = bad | {i for t, i in eligible}
    return set(bad), may, limit, eligible


def check_percentage(info, verified, plan, now, older_days, blockmax=None, lower_bound=True):
    """violations (strings) of the percentage rules for the set of verified stripes"""
    r = select(info, plan, now, older_days, blockmax)
    bad, may, limit, eligible = r
    out = []
    if not bad <= verified:
        out.append("bad stripes not verified: %s" % sorted(bad - verified))
    extra = verified - may
    if extra:
        out.append("verified stripes that are too young / unused: %s" % sorted(extra))
    nb = verified - bad
    if len(nb) > limit:
        out.append("verified %d non-bad stripes, quota is %d" % (len(nb), limit))
    # ... and not fewer: the share asked for is honoured as long as eligible stripes are left (bad ones count in the quota)
    want = min(limit, len(eligible) + len(bad))
    if lower_bound and len(verified) < want:
        out.append("verified %d stripes, the plan asks for %d (quota %d, %d eligible, %d bad)" % (len(verified), want, limit, len(eligible), len(bad)))
    if nb:
        newest = max(info[i][0] for i in nb)
        skipped_older = [i for t, i in eligible if i not in verified and t < newest]
        if skipped_older:
            out.append("unverified eligible stripes %s are strictly older than a verified one" % skipped_older)
    return out
