"""Build snapraid variants and the native helpers from /repo's *current working tree*.

Every check calls build.snapraid(variant) first.  The result is cached in
/verif/build/<variant>-<hash>/ keyed by a hash over all sources + flags, so an edit
to /repo always triggers a rebuild and an unchanged tree costs a few ms.
"""
import hashlib, os, re, subprocess, sys, fcntl, shutil, time
from concurrent.futures import ThreadPoolExecutor

REPO = os.environ.get("VP_REPO", "/repo")
VERIF = os.path.dirname(os.path.dirname(os.path.abspath(__file__)))
BUILD = os.path.join(VERIF, "build")
NATIVE = os.path.join(VERIF, "native")
GUARD = "SNAPRAID_VERIF"

VARIANTS = {
    # name: (cc, cflags, ldflags, main_renamed)
    "plain": ("gcc", ["-O2", "-g"], [], False),
    "asan": ("gcc", ["-O1", "-g", "-fsanitize=address,undefined", "-fno-omit-frame-pointer",
                     "-fno-sanitize-recover=undefined"], ["-fsanitize=address,undefined"], False),
    "tsan": ("gcc", ["-O1", "-g", "-fsanitize=thread"], ["-fsanitize=thread"], False),
    "objs": ("gcc", ["-O2", "-g"], [], True),
    "objs-asan": ("gcc", ["-O1", "-g", "-fsanitize=address,undefined", "-fno-omit-frame-pointer",
                          "-fno-sanitize-recover=undefined"], ["-fsanitize=address,undefined"], True),
    "objs-tsan": ("gcc", ["-O1", "-g", "-fsanitize=thread"], ["-fsanitize=thread"], True),
}


def sources():
    """Source list of the snapraid binary, parsed from Makefile.am (new files are picked up)."""
    txt = open(os.path.join(REPO, "Makefile.am")).read()
    m = re.search(r"snapraid_SOURCES\s*=\s*\\\n((?:.*\\\n)*.*\n)", txt)
    srcs = [s for s in re.findall(r"([\w/]+\.c)", m.group(1))]
    return srcs


def _tree_hash(extra=()):
    h = hashlib.sha256()
    for d in ("cmdline", "raid", "tommyds"):
        p = os.path.join(REPO, d)
        for root, dirs, files in os.walk(p):
            dirs.sort()
            for f in sorted(files):
                if f.endswith((".c", ".h")):
                    fp = os.path.join(root, f)
                    h.update(fp.encode())
                    h.update(open(fp, "rb").read())
    for f in ("Makefile.am", "config.h"):
        fp = os.path.join(REPO, f)
        if os.path.exists(fp):
            h.update(open(fp, "rb").read())
    for e in extra:
        h.update(repr(e).encode())
    return h.hexdigest()[:16]


def _config_dir(outdir):
    """Directory holding config.h: /repo's own if present, else the vendored copy."""
    if os.path.exists(os.path.join(REPO, "config.h")):
        return REPO
    d = os.path.join(outdir, "cfg")
    os.makedirs(d, exist_ok=True)
    shutil.copy(os.path.join(NATIVE, "config.h.vendored"), os.path.join(d, "config.h"))
    return d


class BuildError(Exception):
    pass


def _run(cmd, **kw):
    r = subprocess.run(cmd, stdout=subprocess.PIPE, stderr=subprocess.STDOUT, **kw)
    if r.returncode != 0:
        raise BuildError("command failed: %s\n%s" % (" ".join(cmd), r.stdout.decode(errors="replace")))
    return r


def _lock(name):
    os.makedirs(BUILD, exist_ok=True)
    f = open(os.path.join(BUILD, ".lock-" + name), "w")
    fcntl.flock(f, fcntl.LOCK_EX)
    return f


def _gc(prefix, keep):
    """remove stale build dirs of the same variant"""
    now = time.time()
    for d in os.listdir(BUILD):
        p = os.path.join(BUILD, d)
        if d.startswith(prefix + "-") and d != keep and os.path.isdir(p):
            try:
                age = now - os.path.getmtime(os.path.join(p, ".done"))
            except OSError:
                age = now - os.path.getmtime(p)
            if age > 6 * 3600:   # never remove a build another process may still be using
                shutil.rmtree(p, ignore_errors=True)


def objects(variant="plain", hooks=True):
    """Compile all snapraid sources; returns (dir, [objects], cfgdir)."""
    cc, cflags, ldflags, rename = VARIANTS[variant]
    defs = ["-DHAVE_CONFIG_H"] + (["-D" + GUARD] if hooks else [])
    th = _tree_hash((variant, cflags, defs))
    name = "%s-%s" % (variant, th)
    out = os.path.join(BUILD, name)
    lk = _lock(variant)
    try:
        stamp = os.path.join(out, ".done")
        srcs = sources()
        objs = [os.path.join(out, s.replace("/", "_")[:-2] + ".o") for s in srcs]
        if not os.path.exists(stamp):
            shutil.rmtree(out, ignore_errors=True)
            os.makedirs(out)
            cfg = _config_dir(out)

            def one(i):
                s = srcs[i]
                extra = []
                if rename and s.endswith("cmdline/snapraid.c"):
                    extra = ["-Dmain=snapraid_main"]
                _run([cc] + cflags + defs + extra + ["-I" + cfg, "-I" + REPO, "-pthread", "-w",
                                                    "-c", os.path.join(REPO, s), "-o", objs[i]])
            with ThreadPoolExecutor(16) as ex:
                list(ex.map(one, range(len(srcs))))
            open(stamp, "w").write("ok")
            _gc(variant, name)
        cfg = REPO if os.path.exists(os.path.join(REPO, "config.h")) else os.path.join(out, "cfg")
        return out, objs, cfg
    finally:
        lk.close()


def snapraid(variant="plain", hooks=True):
    """Path of a freshly built snapraid binary of the given variant."""
    cc, cflags, ldflags, rename = VARIANTS[variant]
    assert not rename
    out, objs, cfg = objects(variant, hooks)
    exe = os.path.join(out, "snapraid")
    lk = _lock(variant)
    try:
        if not os.path.exists(exe):
            _run([cc] + ldflags + ["-pthread", "-o", exe + ".tmp"] + objs + ["-lblkid", "-lm"])
            os.rename(exe + ".tmp", exe)
    finally:
        lk.close()
    return exe


def harness(name, src, variant="objs", extra_src=(), extra_flags=(), drop=()):
    """Link a harness main (native/<src>) against all snapraid objects (main renamed)."""
    cc, cflags, ldflags, rename = VARIANTS[variant]
    assert rename
    out, objs, cfg = objects(variant)
    objs = [o for o in objs if os.path.basename(o) not in drop]
    srcs = [os.path.join(NATIVE, src)] + [os.path.join(NATIVE, s) for s in extra_src]
    h = hashlib.sha256()
    for s in srcs:
        h.update(open(s, "rb").read())
    for s in os.listdir(NATIVE):
        if s.endswith(".h"):
            h.update(open(os.path.join(NATIVE, s), "rb").read())
    h.update(repr(extra_flags).encode())
    exe = os.path.join(out, "%s-%s" % (name, h.hexdigest()[:12]))
    lk = _lock(variant)
    try:
        if not os.path.exists(exe):
            _run([cc] + cflags + list(extra_flags) + ["-DHAVE_CONFIG_H", "-I" + cfg, "-I" + REPO, "-I" + NATIVE,
                                                      "-I" + os.path.join(REPO, "cmdline"),
                                                      "-pthread", "-w"] + ldflags +
                 ["-o", exe + ".tmp"] + srcs + objs + ["-lblkid", "-lm"])
            os.rename(exe + ".tmp", exe)
    finally:
        lk.close()
    return exe


def native(name, srcs, flags=(), shared=False, cc="gcc"):
    """Build a repo-independent native helper from /verif/native."""
    os.makedirs(BUILD, exist_ok=True)
    h = hashlib.sha256()
    paths = [os.path.join(NATIVE, s) for s in srcs]
    for p in paths:
        h.update(open(p, "rb").read())
    for s in sorted(os.listdir(NATIVE)):
        if s.endswith(".h"):
            h.update(open(os.path.join(NATIVE, s), "rb").read())
    h.update(repr((flags, shared, cc)).encode())
    out = os.path.join(BUILD, "%s-%s%s" % (name, h.hexdigest()[:12], ".so" if shared else ""))
    lk = _lock("native")
    try:
        if not os.path.exists(out):
            cmd = [cc, "-O2", "-g", "-w", "-pthread", "-I" + NATIVE] + list(flags)
            if shared:
                cmd += ["-shared", "-fPIC"]
            _run(cmd + ["-o", out + ".tmp"] + paths + ["-ldl", "-lm"])
            os.rename(out + ".tmp", out)
    finally:
        lk.close()
    return out


def libvp():
    return native("libvp", ["libvp.c"], shared=True)


if __name__ == "__main__":
    t = time.time()
    what = sys.argv[1:] or ["native"]
    for w in what:
        if w == "native":
            print(libvp())
            print(native("libvpref", ["vpref.c"], shared=True))
        else:
            print(snapraid(w))
    print("%.2fs" % (time.time() - t))
