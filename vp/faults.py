"""Damage menus applied to a lab array (devices lost / corrupted, per-block damage)."""
import os, shutil, itertools
from . import content as C


def devices(lab):
    return [("disk", d) for d in lab.cfg.disknames] + [("parity", l) for l in range(lab.cfg.levels)]


def subsets(items, maxsize, minsize=1):
    for k in range(minsize, maxsize + 1):
        for s in itertools.combinations(items, k):
            yield s


def _garbage(lab, tag, n):
    return lab.gen("garbage:" + tag, n)


def lose_disk(lab, d):
    base = lab.p(d)
    for n in os.listdir(base):
        fp = os.path.join(base, n)
        if os.path.isdir(fp) and not os.path.islink(fp):
            shutil.rmtree(fp)
        else:
            os.unlink(fp)


def corrupt_disk(lab, d, excluded=()):
    """rewrite the bytes of every regular file, keeping size and mtime (hard link groups once)"""
    seen = set()
    for root, dirs, files in os.walk(lab.p(d)):
        for n in files:
            fp = os.path.join(root, n)
            rel = os.path.relpath(fp, lab.p(d))
            if rel in excluded:
                continue
            st = os.lstat(fp)
            if not os.path.isfile(fp) or os.path.islink(fp) or st.st_size == 0:
                continue
            if st.st_ino in seen:
                continue
            seen.add(st.st_ino)
            with open(fp, "r+b") as f:
                old = f.read()
                new = bytes(b ^ 0x5a for b in old)
                f.seek(0)
                f.write(new)
            os.utime(fp, ns=(st.st_mtime_ns, st.st_mtime_ns))


def lose_parity(lab, level):
    for p in lab.parity_paths(level):
        if os.path.exists(p):
            os.unlink(p)


def corrupt_parity(lab, level):
    for i, p in enumerate(lab.parity_paths(level)):
        if os.path.exists(p):
            n = os.path.getsize(p)
            with open(p, "r+b") as f:
                f.write(_garbage(lab, "p%d.%d" % (level, i), n))


def apply_device_fault(lab, dev, kind, excluded=()):
    t, x = dev
    if t == "disk":
        if kind == "lost":
            lose_disk(lab, x)
        else:
            corrupt_disk(lab, x, excluded)
    else:
        if kind == "lost":
            lose_parity(lab, x)
        else:
            corrupt_parity(lab, x)


def data_block_location(c, disk, pos):
    """(File, block index) of the synced block of `disk` at stripe `pos`, or None"""
    d = c.disks[disk.encode() if isinstance(disk, str) else disk]
    for f in d.files:
        for i, (st, p, h) in enumerate(f.blocks):
            if p == pos:
                return f, i
    return None


def damage_data_block(lab, c, disk, pos, shape="flip0"):
    """damage the block of `disk` at stripe pos keeping size and mtime. returns (path, index) or None"""
    loc = data_block_location(c, disk, pos)
    if loc is None:
        return None
    f, i = loc
    fp = os.path.join(lab.p(disk).encode(), f.sub)
    st = os.lstat(fp)
    bs = c.block_size
    if shape == "cut":
        # the file loses its last few bytes (time-stamp kept): damage confined to its LAST block; on any other block: a bit flip
        if i == len(f.blocks) - 1 and st.st_size > 1:
            tail = st.st_size - i * bs           # bytes of the file inside its last block: the cut never reaches the block before
            with open(fp, "r+b") as fh:
                fh.truncate(st.st_size - min(10, tail, st.st_size - 1))
            os.utime(fp, ns=(st.st_mtime_ns, st.st_mtime_ns))
            return f.sub, i
        shape = "flip0"
    with open(fp, "r+b") as fh:
        fh.seek(i * bs)
        old = fh.read(bs)
        if shape == "flip0":
            new = bytes([old[0] ^ 1]) + old[1:]
        elif shape == "fliplast":
            new = old[:-1] + bytes([old[-1] ^ 0x80])
        elif shape == "whole":
            new = bytes(b ^ 0xa5 for b in old)
        elif shape == "zero":
            new = b"\0" * len(old)
            if new == old:
                new = b"\1" * len(old)
        else:
            raise ValueError(shape)
        fh.seek(i * bs)
        fh.write(new)
    os.utime(fp, ns=(st.st_mtime_ns, st.st_mtime_ns))
    return f.sub, i


def parity_location(lab, c, level, pos):
    """(path, offset) holding stripe pos of level, through the recorded split sizes"""
    off = pos * c.block_size
    p = c.parity[level]
    paths = lab.parity_paths(level)
    if p["splits"] is None:
        return paths[0], off
    for i, (path, uuid, size) in enumerate(p["splits"]):
        if off < size:
            return paths[i], off
        off -= size
    return None


def damage_parity_block(lab, c, level, pos, shape="flip0"):
    loc = parity_location(lab, c, level, pos)
    if loc is None:
        return None
    path, off = loc
    bs = c.block_size
    with open(path, "r+b") as fh:
        fh.seek(off)
        old = fh.read(bs)
        if len(old) < bs:
            return None
        if shape == "flip0":
            new = bytes([old[0] ^ 1]) + old[1:]
        elif shape == "fliplast":
            new = old[:-1] + bytes([old[-1] ^ 0x80])
        elif shape == "whole":
            new = bytes(b ^ 0xa5 for b in old)
        else:
            new = b"\0" * bs if old != b"\0" * bs else b"\1" * bs
        fh.seek(off)
        fh.write(new)
    return path, off


def used_stripes(c):
    """positions with at least one file block, -> {pos: [diskname(bytes)...]}"""
    tab = c.stripe_table()
    out = {}
    for pos, per in tab.items():
        ds = [d for d, ents in per.items() if any(e[0] != C.DELETED for e in ents)]
        if ds:
            out[pos] = ds
    return out
