"""Parallel job execution for the explorers (fork based, 16 workers by default)."""
import os, multiprocessing as mp, time, traceback

WORKERS = int(os.environ.get("VP_WORKERS", "0")) or min(16, os.cpu_count() or 4)
_POOL = None


def _wrap(args):
    fn, job = args
    try:
        return ("ok", fn(job))
    except Exception:
        return ("err", traceback.format_exc())


def pmap(fn, jobs, deadline=None, workers=None, chunksize=1):
    """yield (job, result) for every job, in completion order; stops handing out work at `deadline`.
    A worker exception is re-raised in the parent (a broken harness must not look like a pass)."""
    jobs = list(jobs)
    workers = workers or WORKERS
    if workers <= 1 or len(jobs) <= 1:
        for j in jobs:
            if deadline and time.time() > deadline:
                return
            st, r = _wrap((fn, j))
            if st == "err":
                raise RuntimeError("worker failed:\n" + r)
            yield j, r
        return
    # One pool per process, forked at the first use (while the parent is still small) and reused: forking a parent that
    # holds a large frontier for every level is slow and doubles memory.  Job functions must therefore be module level
    # and jobs self-contained (nothing is inherited through globals set after the fork).
    global _POOL
    if _POOL is None:
        _POOL = mp.get_context("fork").Pool(workers)
    pool = _POOL
    it = pool.imap_unordered(_wrap_idx, [(fn, i, j) for i, j in enumerate(jobs)], chunksize)
    complete = False
    try:
        for i, st, r in it:
            if st == "err":
                raise RuntimeError("worker failed:\n" + r)
            yield jobs[i], r
            if deadline and time.time() > deadline:
                return
        complete = True
    finally:
        if not complete:
            # queued work cannot be cancelled: drop the pool, the next call forks a new one
            pool.terminate()
            _POOL = None


def _wrap_idx(args):
    fn, i, job = args
    try:
        return (i, "ok", fn(job))
    except Exception:
        return (i, "err", traceback.format_exc())
