"""Parallel job execution for the explorers (fork based, 16 workers by default)."""
import os, multiprocessing as mp, time, traceback

WORKERS = int(os.environ.get("VP_WORKERS", "0")) or min(16, os.cpu_count() or 4)
_POOL = None
_DEAD = []


def _wrap(args):
    fn, job = args
    try:
        return ("ok", fn(job))
    except Exception:
        return ("err", traceback.format_exc())


def pmap(fn, jobs, deadline=None, workers=None, chunksize=1):
    """yield (job, result) for every job, in completion order; stops handing out work at `deadline`.
    A worker exception is re-raised in the parent (a broken harness must not look like a pass)."""
    jobs = list(jobs)
    workers = workers or WORKERS
    if workers <= 1 or len(jobs) <= 1:
        for j in jobs:
            if deadline and time.time() > deadline:
                return
            st, r = _wrap((fn, j))
            if st == "err":
                raise RuntimeError("worker failed:\n" + r)
            yield j, r
        return
    # One pool per process, forked at the first use (while the parent is still small) and reused: forking a parent that
    # holds a large frontier for every level is slow and doubles memory.  Job functions must therefore be module level
    # and jobs self-contained (nothing is inherited through globals set after the fork).
    global _POOL
    if _POOL is None:
        _POOL = mp.get_context("fork").Pool(workers, initializer=_worker_init)
    pool = _POOL
    # Work is handed out lazily and the hand-out stops at the deadline: what is already in flight completes and the iteration ends
    # by itself.  (Pool.terminate() in the middle of a run can deadlock on the queue lock held by an idle worker; it is never
    # used on the normal path.)
    import threading
    window = threading.Semaphore(workers * 3 * max(1, chunksize))      # at most this many jobs handed out and not yet returned

    def feed():
        for i, j in enumerate(jobs):
            window.acquire()
            if stop[0] or (deadline and time.time() > deadline):
                return
            yield (fn, i, j)
    stop = [False]
    it = pool.imap_unordered(_wrap_idx, feed(), chunksize)
    failed = None
    try:
        for i, st, r in it:
            window.release()
            if st == "err" and failed is None:
                failed = r
                stop[0] = True        # stop feeding, drain what is in flight
            elif failed is None:
                yield jobs[i], r
    finally:
        # also when the consumer walks away early: the pool's feeder thread must never stay blocked on the window
        stop[0] = True
        for _ in range(workers * 3 * max(1, chunksize) + 8):
            window.release()
    if failed is not None:
        raise RuntimeError("worker failed:\n" + failed)


def _worker_init():
    """a worker never outlives the process that forked it (PR_SET_PDEATHSIG = SIGKILL)"""
    try:
        import ctypes, signal
        ctypes.CDLL("libc.so.6", use_errno=True).prctl(1, signal.SIGKILL, 0, 0, 0)
        if os.getppid() == 1:
            os._exit(0)
    except Exception:
        pass


def _kill_pool():
    """abandon the pool without the (deadlock prone) orderly shutdown; only used when the run is lost anyway"""
    global _POOL
    pool, _POOL = _POOL, None
    if pool is not None:
        # the object must never be finalised: Pool's finaliser runs the orderly shutdown, which blocks for ever on the queue lock
        # a killed worker was holding
        _DEAD.append(pool)
        try:
            # the pool's maintenance thread must not fork replacements for the workers killed below
            pool._state = "TERMINATE"
            pool._worker_handler._state = "TERMINATE"
        except Exception:
            pass
        for p in list(getattr(pool, "_pool", [])):
            try:
                p.kill()
            except Exception:
                pass


def _wrap_idx(args):
    fn, i, job = args
    try:
        return (i, "ok", fn(job))
    except Exception:
        return (i, "err", traceback.format_exc())
