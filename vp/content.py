"""Independent decoder / encoder of snapraid content files (SNAPCNT2 / SNAPCNT3).

Written from the record layout; shares no code with snapraid.  decode() raises
ContentError on anything it cannot parse or whose CRC does not match.
"""
from . import ref

BLK, CHG, REP, DELETED = "b", "g", "p", "o"
NSEC_INVALID = None


class ContentError(Exception):
    pass


class File:
    __slots__ = ("sub", "size", "mtime_sec", "mtime_nsec", "inode", "blocks")

    def __init__(self, sub, size, mtime_sec, mtime_nsec, inode, blocks):
        self.sub, self.size, self.mtime_sec, self.mtime_nsec, self.inode = sub, size, mtime_sec, mtime_nsec, inode
        self.blocks = blocks  # list of (state, pos, hash)

    def key(self, with_inode=False):
        t = (self.sub, self.size, self.mtime_sec, self.mtime_nsec, tuple(self.blocks))
        return t + (self.inode,) if with_inode else t


class Disk:
    def __init__(self, name):
        self.name = name
        self.files = []      # File, in recorded order
        self.links = []      # (kind 's'|'a', sub, linkto)
        self.dirs = []       # sub
        self.deleted = {}    # pos -> hash
        self.has_hole_record = False


class Content:
    def __init__(self):
        self.version = 2
        self.block_size = 0
        self.blockmax = 0
        self.hash_size = 16
        self.hash = None        # 'u' murmur3 / 'k' spooky2 / 'm' metro
        self.seed = b"\0" * 16
        self.prevhash = None
        self.prevseed = None
        self.maps = []          # dict(name,pos,total,free,uuid)
        self.parity = {}        # level -> dict(total, free, splits=[(path,uuid,size)], legacy_uuid)
        self.disks = {}         # name -> Disk (insertion ordered = record order)
        self.info = []          # per position: None or (time, bad, rehash, justsynced)
        self.info_oldest = 0
        self.record_order = []  # sequence of record tags as met (diagnostics)
        self.disk_order = []    # disk names in the order their per-disk records appear (the tool writes disks in configuration
                                # order, which need not be the order of the map records)
        self.varint_spans = []  # (start, end, bits) of every packed number in the decoded bytes
        self.inode_spans = []   # (start, end, disk name, inode) of every file record's inode field in the decoded bytes

    # ------------------------------------------------------------ views
    def disk_of_map(self, idx):
        return self.disks[self.maps[idx]["name"]]

    def position_of(self, name):
        for m in self.maps:
            if m["name"] == name:
                return m["pos"]
        raise KeyError(name)

    def stripe_table(self):
        """pos -> {diskname: (state, file, block_index, hash)}; deleted blocks included"""
        tab = {}
        for d in self.disks.values():
            for f in d.files:
                for i, (st, pos, h) in enumerate(f.blocks):
                    tab.setdefault(pos, {}).setdefault(d.name, []).append((st, f, i, h))
            for pos, h in d.deleted.items():
                tab.setdefault(pos, {}).setdefault(d.name, []).append((DELETED, None, 0, h))
        return tab

    def model(self, with_inode=False, with_free=False):
        """canonical comparable value of everything the format records"""
        disks = []
        for d in self.disks.values():
            disks.append((d.name, tuple(f.key(with_inode) for f in d.files), tuple(d.links), tuple(d.dirs),
                          tuple(sorted(d.deleted.items()))))
        maps = tuple((m["name"], m["pos"], m["uuid"]) + ((m["total"], m["free"]) if with_free else ()) for m in self.maps)
        par = tuple((l, tuple(p["splits"]) if p["splits"] is not None else ("legacy", p["legacy_uuid"])) + ((p["total"], p["free"]) if with_free else ())
                    for l, p in sorted(self.parity.items()))
        return (self.version, self.block_size, self.blockmax, self.hash_size, self.hash, self.seed,
                self.prevhash, self.prevseed, maps, par, tuple(disks), tuple(self.info))


class _R:
    def __init__(self, data):
        self.d = data
        self.p = 0
        self.spans = []     # (start, end, bits) of every packed number read

    def eof(self):
        return self.p >= len(self.d)

    def getc(self):
        if self.p >= len(self.d):
            raise ContentError("unexpected EOF at %d" % self.p)
        c = self.d[self.p]
        self.p += 1
        return c

    def read(self, n):
        if self.p + n > len(self.d):
            raise ContentError("unexpected EOF at %d" % self.p)
        r = self.d[self.p:self.p + n]
        self.p += n
        return r

    def b(self, bits):
        v = 0
        s = 0
        start = self.p
        try:
            return self._b(bits)
        finally:
            self.spans.append((start, self.p, bits))

    def _b(self, bits):
        v = 0
        s = 0
        while True:
            c = self.getc()
            if c & 0x80:
                v |= (c & 0x7f) << s
                break
            v |= c << s
            s += 7
            if s >= bits:
                raise ContentError("varint too long at %d" % self.p)
        return v & ((1 << bits) - 1)

    def b32(self):
        return self.b(32)

    def b64(self):
        return self.b(64)

    def bs(self):
        n = self.b32()
        if n + 1 > 4096:
            raise ContentError("string too long")
        return bytes(self.read(n))


def decode(data, strict=True):
    r = _R(data)
    c = Content()
    hdr = r.read(12)
    if hdr == b"SNAPCNT2\n\3\0\0":
        c.version = 2
    elif hdr == b"SNAPCNT3\n\3\0\0":
        c.version = 3
    elif hdr == b"SNAPCNT1\n\3\0\0":
        c.version = 1
    else:
        raise ContentError("bad header")
    crc_ok = False
    while not r.eof():
        t = chr(r.getc())
        c.record_order.append(t)
        if t == "z":
            c.block_size = r.b32()
            if c.block_size == 0:
                raise ContentError("zero blocksize")
        elif t == "x":
            c.blockmax = r.b32()
        elif t == "y":
            c.hash_size = r.b32()
            if not 2 <= c.hash_size <= 16:
                raise ContentError("bad hash size")
        elif t in "cC":
            k = chr(r.getc())
            if k not in "ukm":
                raise ContentError("bad hash kind")
            seed = bytes(r.read(16))
            if t == "c":
                c.hash, c.seed = k, seed
            else:
                c.prevhash, c.prevseed = k, seed
        elif t in "mM":
            name = r.bs()
            pos = r.b32()
            total = free = 0
            if t == "M":
                total = r.b32()
                free = r.b32()
            uuid = r.bs()
            c.maps.append(dict(name=name, pos=pos, total=total, free=free, uuid=uuid))
            c.disks.setdefault(name, Disk(name))
        elif t == "P":
            l = r.b32()
            total = r.b32()
            free = r.b32()
            uuid = r.bs()
            if l >= 6:
                raise ContentError("bad level")
            c.parity[l] = dict(total=total, free=free, splits=None, legacy_uuid=uuid)
        elif t == "Q":
            l = r.b32()
            total = r.b32()
            free = r.b32()
            n = r.b32()
            if l >= 6:
                raise ContentError("bad level")
            sp = []
            for _ in range(n):
                path = r.bs()
                uuid = r.bs()
                size = r.b64()
                sp.append((path, uuid, size))
            c.parity[l] = dict(total=total, free=free, splits=sp, legacy_uuid=None)
        elif t == "f":
            mi = r.b32()
            if mi >= len(c.maps):
                raise ContentError("map index")
            disk = c.disk_of_map(mi)
            if disk.name not in c.disk_order:
                c.disk_order.append(disk.name)
            size = r.b64()
            if c.block_size == 0:
                raise ContentError("no block size")
            if size // c.block_size > c.blockmax:
                raise ContentError("file too big")
            sec = r.b64()
            ns = r.b32()
            ns = NSEC_INVALID if ns == 0 else ns - 1
            ino_at = r.p
            inode = r.b64()
            c.inode_spans.append((ino_at, r.p, disk.name, inode))
            sub = r.bs()
            if not sub:
                raise ContentError("null file")
            nb = (size + c.block_size - 1) // c.block_size
            blocks = []
            while len(blocks) < nb:
                st = chr(r.getc())
                pos = r.b32()
                cnt = r.b32()
                if st not in "bngp":
                    raise ContentError("block type")
                if len(blocks) + cnt > nb or pos + cnt > c.blockmax:
                    raise ContentError("block run out of range")
                if cnt == 0 and strict:
                    raise ContentError("empty run")
                for i in range(cnt):
                    h = b"\0" * c.hash_size if st == "n" else bytes(r.read(c.hash_size))
                    blocks.append((CHG if st == "n" else st, pos + i, h))
            disk.files.append(File(sub, size, sec, ns, inode, blocks))
        elif t in "sa":
            mi = r.b32()
            if mi >= len(c.maps):
                raise ContentError("map index")
            sub = r.bs()
            to = r.bs()
            if not sub or (t == "a" and not to):
                raise ContentError("null link")
            if c.disk_of_map(mi).name not in c.disk_order:
                c.disk_order.append(c.disk_of_map(mi).name)
            c.disk_of_map(mi).links.append((t, sub, to))
        elif t == "r":
            mi = r.b32()
            if mi >= len(c.maps):
                raise ContentError("map index")
            sub = r.bs()
            if not sub:
                raise ContentError("null dir")
            if c.disk_of_map(mi).name not in c.disk_order:
                c.disk_order.append(c.disk_of_map(mi).name)
            c.disk_of_map(mi).dirs.append(sub)
        elif t == "h":
            mi = r.b32()
            if mi >= len(c.maps):
                raise ContentError("map index")
            disk = c.disk_of_map(mi)
            if disk.name not in c.disk_order:
                c.disk_order.append(disk.name)
            disk.has_hole_record = True
            pos = 0
            while pos < c.blockmax:
                cnt = r.b32()
                if pos + cnt > c.blockmax:
                    raise ContentError("hole run")
                k = chr(r.getc())
                if k == "o":
                    for i in range(cnt):
                        disk.deleted[pos + i] = bytes(r.read(c.hash_size))
                elif k != "O":
                    raise ContentError("hole type")
                if cnt == 0 and strict:
                    raise ContentError("empty run")
                pos += cnt
        elif t == "i":
            c.info_oldest = r.b32()
            pos = 0
            info = []
            while pos < c.blockmax:
                cnt = r.b32()
                if pos + cnt > c.blockmax:
                    raise ContentError("info run")
                flag = r.b32()
                if flag & 1:
                    tm = r.b32()
                    v = ((tm + c.info_oldest) & 0xffffffff, bool(flag & 2), bool(flag & 4), bool(flag & 8))
                else:
                    v = None
                if cnt == 0 and strict:
                    raise ContentError("empty run")
                info.extend([v] * cnt)
                pos += cnt
            c.info = info
        elif t == "N":
            want = ref.crc32c(bytes(data[:r.p]))
            got = int.from_bytes(r.read(4), "little")
            if want != got:
                raise ContentError("crc mismatch")
            crc_ok = True
        else:
            raise ContentError("unknown record %r at %d" % (t, r.p - 1))
    if not crc_ok:
        raise ContentError("no crc")
    if len(c.info) < c.blockmax:
        c.info = c.info + [None] * (c.blockmax - len(c.info))
    c.varint_spans = list(r.spans)
    return c


# --------------------------------------------------------------------- encoder

def _b(v):
    out = bytearray()
    while True:
        b = v & 0x7f
        v >>= 7
        if v:
            out.append(b)
        else:
            out.append(b | 0x80)
            return bytes(out)


def _bs(s):
    return _b(len(s)) + s


def encode(c, now=None):
    """Encode a Content the way the tool does (same record order, same run-length rules)."""
    o = bytearray()
    version = 2
    for p in c.parity.values():
        if p["splits"] is not None and len(p["splits"]) > 1:
            version = 3
    if c.hash_size != 16:
        version = 3
    if getattr(c, "force_version", None):
        version = c.force_version
    o += b"SNAPCNT3\n\3\0\0" if version == 3 else b"SNAPCNT2\n\3\0\0"
    o += b"z" + _b(c.block_size) + b"x" + _b(c.blockmax)
    if version == 3:
        o += b"y" + _b(c.hash_size)
    o += b"c" + c.hash.encode() + c.seed
    has_rehash = any(i is not None and i[2] for i in c.info)
    if c.prevhash is not None and has_rehash:
        o += b"C" + c.prevhash.encode() + c.prevseed
    for m in c.maps:
        o += b"M" + _bs(m["name"]) + _b(m["pos"]) + _b(m["total"]) + _b(m["free"]) + _bs(m["uuid"])
    for l in sorted(c.parity):
        p = c.parity[l]
        if version == 3:
            sp = p["splits"] if p["splits"] is not None else [(b"", p["legacy_uuid"], 0)]
            o += b"Q" + _b(l) + _b(p["total"]) + _b(p["free"]) + _b(len(sp))
            for path, uuid, size in sp:
                o += _bs(path) + _bs(uuid) + _b(size)
        else:
            uuid = p["legacy_uuid"] if p["splits"] is None else p["splits"][0][1]
            o += b"P" + _b(l) + _b(p["total"]) + _b(p["free"]) + _bs(uuid)
    mapidx = {m["name"]: i for i, m in enumerate(c.maps)}
    order = [n for n in (getattr(c, "disk_order", None) or []) if n in c.disks]
    order += [n for n in c.disks if n not in order]
    for name in order:
        d = c.disks[name]
        mi = _b(mapidx[name])
        for f in d.files:
            o += b"f" + mi + _b(f.size) + _b(f.mtime_sec)
            o += _b(0 if f.mtime_nsec is None else f.mtime_nsec + 1)
            o += _b(f.inode) + _bs(f.sub)
            i = 0
            n = len(f.blocks)
            while i < n:
                st, pos, _ = f.blocks[i]
                j = i + 1
                while j < n and f.blocks[j][0] == st and f.blocks[j][1] == pos + (j - i):
                    j += 1
                o += st.encode() + _b(pos) + _b(j - i)
                for k in range(i, j):
                    o += f.blocks[k][2]
                i = j
        for kind, sub, to in d.links:
            o += kind.encode() + mi + _bs(sub) + _bs(to)
        for sub in d.dirs:
            o += b"r" + mi + _bs(sub)
        o += b"h" + mi
        pos = 0
        while pos < c.blockmax:
            isdel = pos in d.deleted
            e = pos + 1
            while e < c.blockmax and (e in d.deleted) == isdel:
                e += 1
            o += _b(e - pos)
            if isdel:
                o += b"o"
                for k in range(pos, e):
                    o += d.deleted[k]
            else:
                o += b"O"
            pos = e
    # info
    oldest = c.info_oldest
    o += b"i" + _b(oldest)
    pos = 0
    while pos < c.blockmax:
        v = c.info[pos]
        e = pos + 1
        while e < c.blockmax and c.info[e] == v:
            e += 1
        o += _b(e - pos)
        if v is None:
            o += _b(0)
        else:
            tm, bad, rehash, just = v
            flag = 1 | (2 if bad else 0) | (4 if rehash else 0) | (8 if just else 0)
            if now is not None and tm > now:
                tm = now
            tm = 0 if tm < oldest else tm - oldest
            o += _b(flag) + _b(tm)
        pos = e
    o += b"N"
    o += ref.crc32c(bytes(o)).to_bytes(4, "little")
    return bytes(o)
