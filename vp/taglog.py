"""Parser of snapraid -l tag logs (inverse of esc_tag)."""


def unesc(b):
    out = bytearray()
    i = 0
    n = len(b)
    while i < n:
        c = b[i]
        if c == 0x5c and i + 1 < n:
            d = b[i + 1]
            if d == 0x6e:
                out.append(10)
            elif d == 0x72:
                out.append(13)
            elif d == 0x64:
                out.append(0x3a)
            elif d == 0x5c:
                out.append(0x5c)
            else:
                out.append(c)
                out.append(d)
            i += 2
        else:
            out.append(c)
            i += 1
    return bytes(out)


def parse(data):
    """-> list of tuples of bytes fields (unescaped); lines without ':' are returned as 1-tuples"""
    res = []
    for line in data.split(b"\n"):
        if not line:
            continue
        # split on unescaped ':'  (escaped colon is '\d' so a raw ':' is always a separator)
        res.append(tuple(unesc(f) for f in line.split(b":")))
    return res


class Tags:
    def __init__(self, data):
        self.raw = data
        self.lines = parse(data)

    def get(self, *prefix):
        pre = tuple(p.encode() if isinstance(p, str) else p for p in prefix)
        n = len(pre)
        return [l for l in self.lines if l[:n] == pre]

    def has(self, *prefix):
        return bool(self.get(*prefix))

    def summary(self):
        d = {}
        for l in self.get("summary"):
            if len(l) >= 3:
                d[l[1].decode()] = l[2].decode()
            elif len(l) == 2:
                d[l[1].decode()] = ""
        return d
