#!/bin/bash
# tools/seedimport.sh <Cxx> <suffix> [checks...] : import /tmp/seed-Cxx/seed into seeded/Cxx-<suffix>, verify, run quick checks
a=$1; sfx=$2; shift 2; checks=${@:-$a}
d=/verif/seeded/$a-$sfx; src=/tmp/seed-$a/seed
mkdir -p $d
for f in patch.diff README.txt demo.sh demo.py slowio.c; do [ -f $src/$f ] && cp $src/$f $d/; done
for f in $src/*.c $src/*.py $src/*.sh; do [ -f "$f" ] && cp -n "$f" $d/; done
echo "makecheck SUCCESS lines: $(grep -c 'Regression test completed with SUCCESS' /tmp/seed-$a/makecheck.log)"
(cd /repo && git apply --check $d/patch.diff && echo "patch applies to /repo HEAD")
ORIG=$(cd /verif && python3 -c "from vp import build; print(build.snapraid('plain'))")
if [ -f $src/demo.sh ]; then run="bash $src/demo.sh"; else run="python3 $src/demo.py"; fi
$run $ORIG >/tmp/demo-$a-orig.log 2>&1; r1=$?
$run /tmp/seed-$a/snapraid >/tmp/demo-$a-patched.log 2>&1; r2=$?
echo "demo orig=$r1 patched=$r2"
cd /verif; tools/seedrun.sh seeded/$a-$sfx quick $checks
