#!/usr/bin/env python3
"""Generates golden/arrays_migration.pkl.gz: arrays of the reference commit caught IN THE MIDDLE of a hash migration, both directions
(murmur3 -> spooky2 and spooky2 -> murmur3), some stripes already converted.  Run ONCE like make_golden.py:
     VP_REPO=<scratch checkout of the pinned commit> python3 tools/make_golden2.py <commit-id>"""
import sys, os, gzip, pickle, json
V = os.path.dirname(os.path.dirname(os.path.abspath(__file__)))
sys.path.insert(0, V)
from vp import lab as labmod, explore as X
from vp.lab import Config

commit = sys.argv[1]
G = os.path.join(V, "golden")
arrays = []
n = 0
for lv, z in ((1, False), (2, False), (3, True)):
    for hk in ("murmur3", "spooky2"):
        for hs in (16, 8):
            cfg = Config(levels=lv, z=z, ndisks=3, hashkind=hk, hashsize=hs, contents=["c0/content", "c1/content"])
            with labmod.Lab(cfg, seed=2000 + n) as L:
                ops = [("write", d, "anchor", 700, 0) for d in cfg.disknames]
                ops += [("write", "d1", "a", 2500, 0), ("write", "d2", "b/c", 1025, 0), ("write", "d2", "five", 5000, 0),
                        ("write", "d3", "dir/c", 3000, 0), ("symlink", "d1", "ln", "a"), ("cmd", "sync"),
                        ("cmd", "rehash"),                                   # to the OTHER kind
                        ("write", "d1", "late", 1500, 0), ("cmd", "sync"),       # new blocks hashed with the new kind
                        ("clock", 11 * 86400), ("cmd", "scrub", "-p", "30")]     # some old stripes converted, the rest pending
                for op in ops:
                    r = X.apply_op(L, op)
                    if r is not None and r.rc != 0:
                        raise SystemExit("golden generation failed: %r\n%s" % (op, r.text()))
                c = L.content()
                assert c.prevhash is not None and any(i is not None and i[2] for i in c.info), "no migration pending"
                assert any(i is not None and not i[2] for i in c.info), "no stripe converted"
                r = L.run("check")
                assert r.rc == 0, r.text()
                saved = L.save()
                saved["versions"] = {}
                arrays.append(("%s-L%d%s-%s%d-migrating" % (commit[:7], lv, "z" if z else "", hk[0], hs), saved))
            n += 1
with gzip.open(os.path.join(G, "arrays_migration.pkl.gz"), "wb") as f:
    pickle.dump(arrays, f, protocol=4)
m = json.load(open(os.path.join(G, "meta.json")))
m["arrays_migration"] = [a[0] for a in arrays]
m["generator_migration"] = "tools/make_golden2.py"
json.dump(m, open(os.path.join(G, "meta.json"), "w"), indent=1)
print("golden: %d migrating arrays" % len(arrays))
