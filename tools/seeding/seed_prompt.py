"""tools/seeding/seed_prompt.py <Cxx> [workdir]: prints the complete prompt for a seeding sub-agent.
The prompt contains ONLY the text of the property (title, statement, quantifier - taken from properties.jsonl), the rules of the
game and the list of mechanisms already used (avoid.txt); nothing else from /verif.  Protocol (DESIGN.md 11.6):
  tools/mkworktree.sh /tmp/seed-Cxx; python3 tools/seeding/seed_prompt.py Cxx > /tmp/seedprompt-Cxx.txt;
  spawn an agent told to read that file and work only in /tmp/seed-Cxx; then tools/seedimport.sh Cxx <suffix>; write meta.json;
  git -C /repo worktree remove --force /tmp/seed-Cxx."""
import sys, json, os
HERE = os.path.dirname(os.path.abspath(__file__))
VERIF = os.path.dirname(os.path.dirname(HERE))


def prop_text(pid):
    for l in open(os.path.join(VERIF, "properties.jsonl")):
        p = json.loads(l)
        if p["id"] == pid:
            return "Property %s: %s\n\nStatement: %s\n\nQuantified over: %s\n" % (pid, p["title"], p["statement"], p["quantifier"]["text"])
    raise SystemExit("unknown property " + pid)


pid = sys.argv[1]
prop = prop_text(pid)
extra = ""
if pid in ("C07", "C17"):
    extra = "\n(For reference, the guarantee called C01: " + prop_text('C01').split("Statement: ")[1].split("\n\nQuantified")[0] + ")\n"
    if pid == "C17":
        extra += "(C06: " + prop_text('C06').split("Statement: ")[1].split("\n\nQuantified")[0] + ")\n"
print(f"""You are a careful C developer acting as a "bug seeder" for a robustness study of the backup tool SnapRAID (C, autotools). You work ONLY inside the scratch git worktree /tmp/seed-{pid} (a checkout of the project, already built: `./snapraid` exists; rebuild with `make -j16 snapraid`). Do NOT read or touch /verif or /repo. No network.

Your task: make ONE small, realistic source change (the kind of slip a maintainer could plausibly commit: an off-by-one, a wrong condition, a state update moved across a branch, a flag not reset, a wrong index, a missing check, an update done too early/late, two sites that each look fine alone...) that BREAKS the following semantic property of the tool, while the program still compiles and the project's own test suite still passes.

{prop}{extra}
Requirements for the change:
1. It must need something SPECIFIC to manifest - a particular interleaving, a crash or fault at a particular point, a multi-step sequence of operations, an unusual input/configuration, or two cooperating sites - not something ordinary use exposes at once. A trivial sync/check/fix of a simple array must still work.
2. The project's test suite must still pass with it: run `make check > /tmp/seed-{pid}/makecheck.log 2>&1; echo $?` from the worktree root (takes about 5 minutes; it ends with "Regression test completed with SUCCESS!" and exit 0). If it fails, choose another change. (The baseline that matters is that `make check` completes successfully.)
3. Provide a DEMONSTRATION: a self-contained shell or python script `demo.sh` (or demo.py) that builds a tiny array in a fresh temp dir (use a conf file with `blocksize 1`, `parity`, optionally `2-parity`, `content`, `data d1 DIR/` ... ; run the binary given as first argument with options like `--test-skip-device --test-skip-self --no-warnings -c CONF`; useful test options: `--test-run CMD` runs a shell command between scan and sync, `--test-kill-after-sync`, `-S/-B` partial sync, `--test-io-cache N`, `--test-force-autosave-at N`, `--test-parity-limit N`, `-E`, `-F`, `-R`, `-h`, `-N`, `-f`, `-d`, `-m`, `-e`, `-p`, `-o`, `-i`; `-l FILE` writes a tagged log) and exits 0 when the property holds for that scenario and non-zero when it is violated. It must FAIL (non-zero) with your change and PASS (0) on the unmodified code. Verify both: build the original (`git stash` or a second build dir / `git diff > patch.diff; git checkout -- .; make; run; git apply patch.diff; make; run`). If the demonstration needs fault injection or killing the process at a point, you may use an LD_PRELOAD shim you write yourself, gdb, `kill`, or the tool's own test options.
4. Keep the diff minimal (ideally < 15 changed lines, only under cmdline/ or raid/). No changes to tests, build files or docs.

Deliverables (put them in /tmp/seed-{pid}/seed/): `patch.diff` (output of `git diff` for your change), `demo.sh`/`demo.py`, `README.txt` explaining: what the change is, why it breaks the property, exactly what is needed for it to manifest, and the commands you ran with their observed results (make check result, demo on original = pass, demo on patched = fail). Leave the worktree with the patch APPLIED and built.

Work autonomously; try up to a few candidate changes if the first ones are caught by `make check` or do not really violate the property. Read the relevant sources first (cmdline/*.c, raid/*.c; the manual is snapraid.txt). In your final answer give a 10-line summary: the diff, what manifests it, and the verification results.""")

print()
print("IMPORTANT - diversity: other seeders already produced the following changes; choose a DIFFERENT mechanism and a different area of the code than all of these:")
print(open(os.path.join(HERE, "avoid.txt")).read())
