#!/bin/bash
# usage: tools/mutcheck.sh <patch-file|-e sedexpr file> -- <check args...>
# applies a patch to a scratch copy of /repo (sources only) and runs bin/check against it via VP_REPO.
set -e
D=$(mktemp -d /tmp/mut-XXXXXX)
trap 'rm -rf "$D"' EXIT
mkdir -p $D/repo
cd /repo
cp -r Makefile.am config.h cmdline raid tommyds $D/repo/ 2>/dev/null
find $D/repo -name '*.o' -delete
cd $D/repo && git init -q . && git add -A >/dev/null && git -c user.email=a@b -c user.name=x commit -qm base
if [ "$1" = "-e" ]; then
  sed -i -e "$2" "$D/repo/$3"; shift 3
else
  git apply "$1" || patch -p1 < "$1"; shift
fi
[ "$1" = "--" ] && shift
git diff --stat | tail -3
cd /verif
VP_REPO=$D/repo VP_EVIDENCE_DIR=$D/evidence VP_REPLAY_DIR=$D/replay "$@"
