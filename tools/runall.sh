#!/bin/bash
# tools/runall.sh [quick|thorough] [ids...] : run registered checks sequentially, print one line each
cd "$(dirname "$0")/.."
tier=${1:-quick}; shift
ids=${@:-$(python3 -c "import json;print(' '.join(c['property_id'] for c in json.load(open('MANIFEST.json'))['checks']))")}
for i in $ids; do
  s=$(date +%s)
  out=$(bin/check $i --tier $tier 2>&1); rc=$?
  echo "$i rc=$rc $(( $(date +%s)-s ))s :: $(echo "$out" | grep -c '^VIOLATION') violations :: $(echo "$out" | tail -1 | cut -c1-160)"
done
