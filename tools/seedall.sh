#!/bin/bash
# tools/seedall.sh [tier] : run, for every seeded change, the quick check of the property it targets; one line per seed in seeded/RESULTS.txt
cd /verif
tier=${1:-quick}
out=seeded/RESULTS.txt
: > $out.tmp
for d in seeded/C*/; do
  s=$(basename $d)
  p=${s%%-*}
  o=$(tools/mutcheck.sh /verif/seeded/$s/patch.diff -- bin/check $p --tier $tier 2>&1); rc=$?
  n=$(echo "$o" | grep -c '^VIOLATION')
  k=$(echo "$o" | grep 'key=' | grep -v KNOWN-FINDING | sed 's/.*key=\([^ ]*\).*/\1/' | sort | uniq -c | sort -rn | head -2 | awk '{printf "%s x%s  ", $2, $1}')
  echo "$s $p[$tier] rc=$rc violations=$n :: $k" | tee -a $out.tmp
done
mv $out.tmp $out
