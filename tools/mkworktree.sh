#!/bin/bash
# tools/mkworktree.sh <dir> : scratch git worktree of /repo HEAD with the (untracked) autotools build files copied in, built
set -e
D=$1
git -C /repo worktree add -q --detach "$D" HEAD
cd /repo
for f in configure Makefile.in Makefile config.h config.h.in config.status aclocal.m4 compile depcomp install-sh missing stamp-h1 config.guess config.sub test-driver ar-lib; do
  [ -e "$f" ] && cp -p "$f" "$D/" || true
done
for d in cmdline raid tommyds; do
  [ -d "$d/.deps" ] && cp -rp "$d/.deps" "$D/$d/" || true
  [ -e "$d/.dirstamp" ] && cp -p "$d/.dirstamp" "$D/$d/" || true
done
cd "$D" && make -j16 snapraid >/dev/null 2>&1 && ls -la snapraid | cut -c1-80
