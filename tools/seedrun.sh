#!/bin/bash
# tools/seedrun.sh <seeded-dir> <tier> <check ids...> : run checks against /repo + seeded patch (scratch copy), one line per check
S=$1; tier=$2; shift 2
for c in "$@"; do
  out=$(tools/mutcheck.sh /verif/$S/patch.diff -- bin/check $c --tier $tier 2>&1); rc=$?
  echo "$S $c[$tier]: rc=$rc $(echo "$out" | grep -c '^VIOLATION') violations :: $(echo "$out" | grep 'key=' | head -1 | cut -c1-170)"
done
