#!/usr/bin/env python3
"""Generates golden/arrays_pending.pkl.gz: arrays of the reference commit whose content file records PENDING states - the positions of a
removed file still listed as deleted (with their hashes), a new file and a rewritten file not yet synced (a range-limited sync stopped
before them), a copy with inherited hashes - for every hash size.  Run ONCE like make_golden.py:
     VP_REPO=<scratch checkout of the pinned commit> python3 tools/make_golden3.py <commit-id>"""
import sys, os, gzip, pickle, json
V = os.path.dirname(os.path.dirname(os.path.abspath(__file__)))
sys.path.insert(0, V)
from vp import lab as labmod, explore as X, content as C
from vp.lab import Config

commit = sys.argv[1]
G = os.path.join(V, "golden")
arrays = []
n = 0
for lv, z in ((1, False), (2, False), (3, True)):
    for hk in ("murmur3", "spooky2"):
        for hs in (16, 8, 4, 2):
            if (lv, hk) in ((2, "spooky2"), (3, "murmur3")) and hs in (4, 2):
                continue
            cfg = Config(levels=lv, z=z, ndisks=3, hashkind=hk, hashsize=hs, contents=["c0/content", "c1/content"])
            with labmod.Lab(cfg, seed=3000 + n) as L:
                ops = [("write", d, "anchor", 700, 0) for d in cfg.disknames]
                ops += [("write", "d1", "a", 5000, 0), ("write", "d1", "keep", 2048, 0), ("write", "d2", "b/c", 1025, 0), ("write", "d2", "five", 5000, 0),
                        ("write", "d3", "dir/c", 3000, 0), ("symlink", "d1", "ln", "a"), ("cmd", "sync"),
                        ("rm", "d1", "a"),                                  # five positions of d1 become DELETED
                        ("write", "d3", "late", 4000, 0),                   # new blocks (CHG)
                        ("write", "d2", "five", 5000, 1),                   # a rewritten file (CHG over its old positions)
                        ("cp", "d1", "keep", "d3", "keep"),                 # a copy: hashes inherited (REP)
                        ("cmd", "sync", "-B", "1")]                         # only the first stripe is processed, the state is saved
                for op in ops:
                    r = X.apply_op(L, op)
                    if r is not None and r.rc != 0:
                        raise SystemExit("golden generation failed: %r\n%s" % (op, r.text()))
                c = L.content()
                states = {st for d in c.disks.values() for f in d.files for st, _, _ in f.blocks}
                assert any(d.deleted for d in c.disks.values()), "no deleted position recorded"
                assert C.CHG in states and C.REP in states and C.BLK in states, states
                r = L.run("status")
                assert r.rc == 0, r.text()
                saved = L.save()
                saved["versions"] = {}
                arrays.append(("%s-L%d%s-%s%d-pending" % (commit[:7], lv, "z" if z else "", hk[0], hs), saved))
            n += 1
with gzip.open(os.path.join(G, "arrays_pending.pkl.gz"), "wb") as f:
    pickle.dump(arrays, f, protocol=4)
m = json.load(open(os.path.join(G, "meta.json")))
m["arrays_pending"] = [a[0] for a in arrays]
m["generator_pending"] = "tools/make_golden3.py"
json.dump(m, open(os.path.join(G, "meta.json"), "w"), indent=1)
print("golden: %d pending arrays" % len(arrays))
