#!/usr/bin/env python3
"""Generates /verif/golden from a checkout of the reference commit.  Run ONCE as
     VP_REPO=<scratch checkout of the pinned commit> python3 tools/make_golden.py <commit-id>
The scratch checkout lives outside /repo and /verif and is removed afterwards (see golden/README)."""
import sys, os, gzip, pickle, subprocess, hashlib, json
V = os.path.dirname(os.path.dirname(os.path.abspath(__file__)))
sys.path.insert(0, V)
from vp import build, lab as labmod, explore as X
from vp.lab import Config

commit = sys.argv[1]
G = os.path.join(V, "golden")
os.makedirs(G, exist_ok=True)
exe = build.harness("vecmc", "vecmc.c")
vec = subprocess.run([exe], stdout=subprocess.PIPE, check=True).stdout
open(os.path.join(G, "vectors.bin"), "wb").write(vec)

arrays = []
hashes = [("murmur3", 16), ("spooky2", 16), ("murmur3", 8), ("spooky2", 8), ("murmur3", 4), ("spooky2", 4), ("murmur3", 2), ("spooky2", 2)]
levels = [(1, False), (2, False), (3, False), (3, True), (4, False), (5, False), (6, False)]
n = 0
for li, (lv, z) in enumerate(levels):
    for hi, (hk, hs) in enumerate(hashes):
        split = (li + hi) % 3 == 0
        cfg = Config(levels=lv, z=z, ndisks=3, hashkind=hk, hashsize=hs,
                     splits=({l: 2 for l in range(lv)} if split else {}), parity_limit=(4096 if split else None),
                     contents=["c0/content", "c1/content"])
        with labmod.Lab(cfg, seed=1000 + n) as L:
            ops = [("write", d, "anchor", 700, 0) for d in cfg.disknames]
            ops += [("write", "d1", "a", 2500, 0), ("write", "d1", "dir/sp ace", 1, 0), ("write", "d2", "b/c", 1025, 0),
                    ("write", "d2", "five", 5000, 0), ("write", "d3", "dir/c", 3000, 0), ("write", "d3", "zero", 0, 0),
                    ("symlink", "d1", "ln", "a"), ("hardlink", "d2", "hl", "five"), ("mkdir", "d3", "ed"),
                    ("cmd", "sync"),
                    # a second generation: delete + add so that deleted-block holes and fragmentation are recorded
                    ("rm", "d1", "a"), ("write", "d1", "a2", 3500, 0), ("cmd", "sync")]
            for op in ops:
                r = X.apply_op(L, op)
                if r is not None and r.rc != 0:
                    raise SystemExit("golden generation failed: %r\n%s" % (op, r.text()))
            r = L.run("check")
            assert r.rc == 0
            saved = L.save()
            saved["versions"] = {}
            arrays.append(("%s-L%d%s-%s%d%s" % (commit[:7], lv, "z" if z else "", hk[0], hs, "-split" if split else ""), saved))
        n += 1
with gzip.open(os.path.join(G, "arrays.pkl.gz"), "wb") as f:
    pickle.dump(arrays, f, protocol=4)
meta = dict(commit=commit, arrays=[a[0] for a in arrays], vectors_sha256=hashlib.sha256(vec).hexdigest(), vectors_bytes=len(vec),
            generator="tools/make_golden.py + native/vecmc.c")
json.dump(meta, open(os.path.join(G, "meta.json"), "w"), indent=1)
print("golden: %d arrays, %d vector bytes" % (len(arrays), len(vec)))
