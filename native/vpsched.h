#ifndef VPS_SCHED_H
#define VPS_SCHED_H
#include <stdint.h>
#include <pthread.h>
#include <semaphore.h>

#ifdef VPS_PRELOAD
#define VPS_MAXT 64
#else
#define VPS_MAXT 16
#endif
#define VPS_MAXPTS 4096

enum { VPS_FREE, VPS_RUN, VPS_MUTEX, VPS_COND, VPS_JOIN, VPS_DONE };
enum { VPS_K_LOCK = 1, VPS_K_UNLOCK, VPS_K_WAIT, VPS_K_SIGNAL, VPS_K_WAKE, VPS_K_CREATE, VPS_K_JOIN, VPS_K_EXIT, VPS_K_BLOCK, VPS_K_USER };
enum { VPS_RES_RUNNING, VPS_RES_OK, VPS_RES_MONITOR, VPS_RES_DEADLOCK, VPS_RES_DIVERGE, VPS_RES_TOOLONG, VPS_RES_CRASH };

struct vps_thread {
	int status;
	const void* obj;
	int site;       /* source line of the last synchronisation call (set through vps_site by the io.c macros) */
	int op;         /* synchronisation call in progress */
	int phase;      /* harness defined */
	sem_t go;
	pthread_t real;
	void* (*fn)(void*);
	void* arg;
	void* ret;
};

struct vps_point {
	unsigned char n, chosen, cur_enabled, kind;
	uint64_t fp;
};

struct vps_trace {
	int npoints;
	int result;
	char msg[256];
	struct vps_point pts[VPS_MAXPTS];
};

extern struct vps_thread vps_T[VPS_MAXT];
extern int vps_nthreads;
extern int vps_cur;
extern __thread int vps_site;
extern uint64_t (*vps_fp_cb)(void);

void vps_init(const unsigned char* prefix, int n, struct vps_trace* out);
void vps_finish(int result);
void vps_fail(int result, const char* msg);
void vps_point(int kind);
#endif
