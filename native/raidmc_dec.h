/*
 * raidmc_dec.h - C03(b): every erasure pattern within the parity count is recovered exactly.
 *
 *   raidmc dec mode=0|1 nds=<list> fullmax=<n> sizes=<list> families=ramp,dense,prng
 *              [fns=<list>] [pairs=1] [threads=<n>] [deadline=<epoch>] [seed=<n>]
 *   single case (replay): add  np=<n> fail=<set> [ip=<set>]  with one fn, nd, size, family
 *
 * Functions: every raid_rec{1,2,X}_<variant> found in raid/internal.h (RAIDMC_REC_LIST),
 * the public raid_data() (same argument convention) and the public raid_rec().
 *
 * Space, per nd:
 *   nd <= fullmax : raid_rec : every np, every failure set of size <= np over data U parity
 *                   others   : every set of nr failed data disks x every parity subset ip, |ip| = nr
 *   nd >  fullmax : the same restricted to: all sets of size <= 2, and every set of size 3..6
 *                   drawn from the boundary alphabet {0,1,31,32,33,nd-2,nd-1} (U parities for raid_rec)
 * mode=1 is the alternate three-parity (power) matrix: parity indexes 0..2 only.
 *
 * The stripe is built with the reference (vp_parity).  Lost buffers are overwritten with a
 * sentinel; for raid_data/raid_recN every parity NOT in ip holds a sentinel too (it may be
 * neither read nor written).  After the call: lost blocks == originals, every other data block
 * unchanged, parities that were valid still hold the right bytes, sentinel parities untouched,
 * canaries and the zero block intact.
 */
#ifndef RAIDMC_DEC_H
#define RAIDMC_DEC_H

typedef void rec_f(int nr, int *id, int *ip, int nd, size_t size, void **v);

enum { K_REC = 0, K_DATA = 1, K_LOW = 2 };

typedef struct {
	const char *name;
	int kind;
	rec_f *fn;
	int N;           /* number of failures handled: 1, 2, 0 = any */
	int runnable;
	const char *why;
	long cases;
} dec_t;

static dec_t DECS[64];
static int NDECS;

#define RAIDMC_ADD_REC(f, n, variant, cpuok) do { \
	dec_t *d = &DECS[NDECS++]; \
	d->name = #f; d->kind = K_LOW; d->fn = (rec_f *)(f); d->N = (n); d->runnable = 1; d->why = ""; \
	if (!d->fn) { d->runnable = 0; d->why = "not-compiled"; } \
	else if (!(cpuok)) { d->runnable = 0; d->why = "cpu-lacks-" variant; } \
} while (0);

static void dec_registry(void)
{
	RAIDMC_REC_LIST(RAIDMC_ADD_REC)
	dec_t *d = &DECS[NDECS++];
	d->name = "raid_data"; d->kind = K_DATA; d->fn = raid_data; d->N = 0; d->runnable = 1; d->why = "";
	d = &DECS[NDECS++];
	d->name = "raid_rec"; d->kind = K_REC; d->fn = 0; d->N = 0; d->runnable = 1; d->why = "";
}

#define DEC_MAXSIZE 512
static uint8_t DEC_ZERO[DEC_MAXSIZE] __attribute__((aligned(64)));

static int D_mode, D_npmax, D_fullmax, D_pairs;
static uint64_t D_seed;

typedef struct {
	stripe_t st;
	uint8_t *orig;              /* nd data blocks then 6 reference parities, DEC_MAXSIZE apart */
	int nd; size_t size; const char *family;
	long cases;
	dec_t *f;
} dec_tls_t;

static void *dec_tls_new(void)
{
	dec_tls_t *t = calloc(1, sizeof(*t));
	stripe_alloc(&t->st, RAID_DATA_MAX + 6, DEC_MAXSIZE);
	t->orig = malloc((size_t)(RAID_DATA_MAX + 6) * DEC_MAXSIZE);
	return t;
}

static void dec_tls_free(void *p)
{
	dec_tls_t *t = p;
	stripe_free(&t->st);
	free(t->orig);
	free(t);
}

static inline uint8_t *dec_orig(dec_tls_t *t, int b) { return t->orig + (size_t)b * DEC_MAXSIZE; }

/* ramp: at size 256 every disk holds every byte value once, rotated per disk (64: every 4th value) */
static void fill_ramp(uint8_t *b, int disk, size_t size)
{
	unsigned step = size >= 256 ? 1 : (unsigned)(256 / size);
	for (size_t p = 0; p < size; ++p) b[p] = (uint8_t)(p * step + 17u * disk + (disk >> 2));
}

/* consistent stripe from the reference */
static void dec_build(dec_tls_t *t, int nd, size_t size, const char *family)
{
	const uint8_t *d[256];
	uint8_t *par[6];
	int col[256];
	t->nd = nd; t->size = size; t->family = family;
	for (int k = 0; k < nd; ++k) {
		uint8_t *o = dec_orig(t, k);
		if (strcmp(family, "ramp") == 0) fill_ramp(o, k, size);
		else if (strcmp(family, "dense") == 0) fill_dense(o, k, size);
		else fill_prng(o, D_seed, nd, k, size);
		d[k] = o; col[k] = k;
	}
	for (int j = 0; j < 6; ++j) par[j] = dec_orig(t, nd + j);
	vp_parity(D_mode, nd, col, d, D_npmax, par, size);
	stripe_shape(&t->st, nd + 6, size);
	for (int b = 0; b < nd; ++b) memcpy(t->st.v[b], dec_orig(t, b), size);
}

/*
 * One case.  kind K_REC: fail[] are raid_rec indexes (data and parity) and np is the parity count.
 * kind K_DATA/K_LOW: fail[] are data indexes, ip[] the parities to use.
 * returns 0 when the property holds.
 */
static int dec_case(dec_tls_t *t, dec_t *f, int np, int nr, const int *lostset, const int *ip)
{
	stripe_t *st = &t->st;
	const int nd = t->nd;
	const size_t size = t->size;
	int valid[6];      /* parity j holds the reference bytes before the call */
	int lost[6 + 1];
	char key[160], rp[384], fs[64], is[64];
	void *v[MAXBLK];
	int bad = 0;

	fmt_set(fs, sizeof(fs), lostset, nr);
	fmt_set(is, sizeof(is), ip, f->kind == K_REC ? 0 : nr);
	snprintf(rp, sizeof(rp), "cmd=dec mode=%d fns=%s nds=%d sizes=%zu families=%s np=%d fail=%s ip=%s seed=%llu",
		D_mode, f->name, nd, size, t->family, np, fs, is, (unsigned long long)D_seed);

	/* parities */
	for (int j = 0; j < 6; ++j) valid[j] = 0;
	if (f->kind == K_REC) for (int j = 0; j < np; ++j) valid[j] = 1;
	else for (int j = 0; j < nr; ++j) valid[ip[j]] = 1;
	for (int i = 0; i < nr; ++i) {
		lost[i] = lostset[i];
		if (lostset[i] >= nd) valid[lostset[i] - nd] = 2; /* lost parity: must be rebuilt */
	}
	for (int j = 0; j < 6; ++j) {
		if (valid[j] == 1) memcpy(st->v[nd + j], dec_orig(t, nd + j), size);
		else paint_sentinel(st->v[nd + j], nd + j, size);
	}
	/* lost data */
	for (int i = 0; i < nr; ++i)
		if (lost[i] < nd) paint_sentinel(st->v[lost[i]], lost[i], size);

	/* the functions permute the pointer vector while working: give them a private copy */
	memcpy(v, st->v, sizeof(void *) * (nd + 6));
	int idc[6], ipc[6];
	for (int i = 0; i < nr; ++i) { idc[i] = lostset[i]; ipc[i] = ip ? ip[i] : 0; }

	snprintf(t_case_key, sizeof(t_case_key), "C03/dec/%s", f->name);
	snprintf(t_case_replay, sizeof(t_case_replay), "%s", rp);
	if (f->kind == K_REC) raid_rec(nr, idc, nd, np, size, v);
	else f->fn(nr, idc, ipc, nd, size, v);
	t_case_key[0] = 0;

	/* the vector and the index arrays are restored / untouched */
	if (memcmp(v, st->v, sizeof(void *) * (nd + 6)) != 0) {
		snprintf(key, sizeof(key), "C03/dec/%s/vector-not-restored", f->name);
		fail(key, rp, "nd=%d np=%d fail={%s} ip={%s}: block pointer vector differs after the call", nd, np, fs, is);
		bad = 1;
	}
	for (int i = 0; i < nr; ++i)
		if (idc[i] != lostset[i] || (ip && ipc[i] != ip[i])) {
			snprintf(key, sizeof(key), "C03/dec/%s/index-array-modified", f->name);
			fail(key, rp, "nd=%d np=%d fail={%s} ip={%s}: index arrays modified", nd, np, fs, is);
			bad = 1;
			break;
		}

	/* data blocks */
	for (int b = 0; b < nd; ++b) {
		long p = first_diff(st->v[b], dec_orig(t, b), size);
		if (p < 0) continue;
		int waslost = 0;
		for (int i = 0; i < nr; ++i) if (lost[i] == b) waslost = 1;
		snprintf(key, sizeof(key), "C03/dec/%s/%s", f->name, waslost ? "wrong-recovery" : "survivor-modified");
		fail(key, rp, "nd=%d np=%d size=%zu family=%s fail={%s} ip={%s}: data block %d %s at byte %ld (0x%02x, original 0x%02x)",
			nd, np, size, t->family, fs, is, b, waslost ? "not restored" : "was a survivor and changed", p,
			((uint8_t *)st->v[b])[p], dec_orig(t, b)[p]);
		memcpy(st->v[b], dec_orig(t, b), size);
		bad = 1;
	}
	/* parity blocks */
	for (int j = 0; j < 6; ++j) {
		if (valid[j]) {
			long p = first_diff(st->v[nd + j], dec_orig(t, nd + j), size);
			if (p < 0) continue;
			snprintf(key, sizeof(key), "C03/dec/%s/%s", f->name, valid[j] == 2 ? "parity-not-rebuilt" : "surviving-parity-modified");
			fail(key, rp, "nd=%d np=%d size=%zu family=%s fail={%s} ip={%s}: parity %d %s at byte %ld",
				nd, np, size, t->family, fs, is, j, valid[j] == 2 ? "not rebuilt" : "was valid and changed", p);
			bad = 1;
		} else if (!is_sentinel(st->v[nd + j], nd + j, size)) {
			snprintf(key, sizeof(key), "C03/dec/%s/unused-parity-written", f->name);
			fail(key, rp, "nd=%d np=%d size=%zu family=%s fail={%s} ip={%s}: parity buffer %d, not part of the request, was written",
				nd, np, size, t->family, fs, is, j);
			bad = 1;
		}
	}
	int c = stripe_canary_bad(st);
	if (c >= 0) {
		snprintf(key, sizeof(key), "C03/dec/%s/canary", f->name);
		fail(key, rp, "nd=%d np=%d fail={%s} ip={%s}: canary zone %d damaged", nd, np, fs, is, c);
		stripe_shape(st, nd + 6, size);
		bad = 1;
	}
	++t->cases;
	return bad;
}

/* all ip subsets of size nr of the parities 0..D_npmax-1, for one set of failed data disks */
static void dec_all_ip(dec_tls_t *t, dec_t *f, int nr, const int *id)
{
	int ip[6];
	if (nr > D_npmax) return;
	comb_first(nr, ip);
	do {
		dec_case(t, f, ip[nr - 1] + 1, nr, id, ip);
	} while (comb_next(nr, D_npmax, ip));
}

/* visit every r-subset of universe u[0..nu-1] */
typedef void set_cb(dec_tls_t *t, dec_t *f, int np, int r, const int *set);

static void dec_subsets(dec_tls_t *t, dec_t *f, int np, const int *u, int nu, int r, set_cb *cb)
{
	int c[6], s[6];
	if (r > nu) return;
	if (r == 0) { cb(t, f, np, 0, s); return; }
	comb_first(r, c);
	do {
		for (int i = 0; i < r; ++i) s[i] = u[c[i]];
		cb(t, f, np, r, s);
	} while (comb_next(r, nu, c));
}

static void cb_rec(dec_tls_t *t, dec_t *f, int np, int r, const int *set) { dec_case(t, f, np, r, set, 0); }
static void cb_low(dec_tls_t *t, dec_t *f, int np, int r, const int *set) { (void)np; dec_all_ip(t, f, r, set); }

/* boundary alphabet of data indexes for a large nd */
static int dec_alphabet(int nd, int *a)
{
	int cand[7] = { 0, 1, 31, 32, 33, nd - 2, nd - 1 };
	int n = 0;
	for (int x = 0; x < nd; ++x)
		for (int i = 0; i < 7; ++i)
			if (cand[i] == x) { a[n++] = x; break; }
	return n;
}

/* the whole space of one (function, nd, size, family); returns 1 if the deadline cut it short */
static int dec_item(dec_tls_t *t, dec_t *f, int nd, size_t size, const char *family)
{
	int all[RAID_DATA_MAX + 6], alpha[16];
	dec_build(t, nd, size, family);
	t->cases = 0;
	int full = nd <= D_fullmax;
	if (f->kind == K_REC) {
		for (int np = 1; np <= D_npmax; ++np) {
			for (int i = 0; i < nd + np; ++i) all[i] = i;
			int na = dec_alphabet(nd, alpha);
			for (int j = 0; j < np; ++j) alpha[na++] = nd + j;
			for (int r = 0; r <= np; ++r) {
				if (full || (r <= 2 && D_pairs)) dec_subsets(t, f, np, all, nd + np, r, cb_rec);
				else dec_subsets(t, f, np, alpha, na, r, cb_rec);
				if (out_of_time()) return 1;
			}
		}
	} else {
		for (int i = 0; i < nd; ++i) all[i] = i;
		int na = dec_alphabet(nd, alpha);
		for (int r = 1; r <= D_npmax && r <= nd; ++r) {
			if (f->N && f->N != r) continue;
			if (full || (r <= 2 && D_pairs)) dec_subsets(t, f, 0, all, nd, r, cb_low);
			else dec_subsets(t, f, 0, alpha, na, r, cb_low);
			if (out_of_time()) return 1;
		}
	}
	return 0;
}

typedef struct { int fi; int nd; int size; const char *family; double cost; long cases; int done; int partial; } dec_item_t;
static dec_item_t *D_items;
static int D_nitems;

static int dec_item_cmp(const void *a, const void *b)
{
	const dec_item_t *x = a, *y = b;
	if (x->cost != y->cost) return x->cost < y->cost ? 1 : -1;
	if (x->nd != y->nd) return y->nd - x->nd;
	if (x->fi != y->fi) return x->fi - y->fi;
	if (x->size != y->size) return x->size - y->size;
	return strcmp(x->family, y->family);
}

static void dec_work(int it, void *tls)
{
	dec_item_t *w = &D_items[it];
	dec_tls_t *t = tls;
	w->partial = dec_item(t, &DECS[w->fi], w->nd, w->size, w->family);
	w->cases = t->cases;
	w->done = 1;
	__sync_fetch_and_add(&DECS[w->fi].cases, t->cases);
}

static int cmd_dec(void)
{
	static int nds[300], sizes[8];
	static char famstore[3][8] = { "ramp", "dense", "prng" };
	int threads = (int)arg_int("threads", 16);
	int nnds = parse_intlist(arg_str("nds", "1-6"), nds, 300);
	int nsizes = parse_intlist(arg_str("sizes", "64,256"), sizes, 8);
	const char *fns = arg_str("fns", 0);
	const char *families = arg_str("families", "ramp,dense");
	D_mode = (int)arg_int("mode", 0);
	D_npmax = D_mode ? 3 : 6;
	D_fullmax = (int)arg_int("fullmax", 8);
	D_pairs = (int)arg_int("pairs", 1);
	D_seed = (uint64_t)arg_int("seed", 0);
	for (int i = 0; i < nsizes; ++i)
		if (sizes[i] % 64 || sizes[i] <= 0 || sizes[i] > DEC_MAXSIZE) { fprintf(stderr, "bad size\n"); return 2; }

	raid_init();
	raid_mode(D_mode ? RAID_MODE_VANDERMONDE : RAID_MODE_CAUCHY);
	raid_zero(DEC_ZERO);
	dec_registry();
	for (int i = 0; i < NDECS; ++i)
		say("FN name=%s kind=%d n=%d runnable=%d why=%s\n", DECS[i].name, DECS[i].kind, DECS[i].N, DECS[i].runnable,
			DECS[i].why[0] ? DECS[i].why : "-");

	/* single case */
	if (arg_str("fail", 0)) {
		int fl[6], ip[6];
		int nr = strcmp(arg_str("fail", ""), "-") ? parse_intlist(arg_str("fail", ""), fl, 6) : 0;
		int nip = strcmp(arg_str("ip", "-"), "-") ? parse_intlist(arg_str("ip", ""), ip, 6) : 0;
		dec_tls_t *t = dec_tls_new();
		int ran = 0;
		for (int i = 0; i < NDECS; ++i) {
			dec_t *f = &DECS[i];
			if (!fns || !in_list(fns, f->name) || !f->runnable) continue;
			for (int k = 0; k < 3; ++k) {
				if (!in_list(families, famstore[k])) continue;
				dec_build(t, nds[0], sizes[0], famstore[k]);
				dec_case(t, f, (int)arg_int("np", nip ? ip[nip - 1] + 1 : D_npmax), nr, fl, f->kind == K_REC ? 0 : ip);
				++ran;
			}
		}
		say("OK dec single cases=%d fails=%ld\n", ran, g_nfail);
		return 0;
	}

	D_items = calloc((size_t)NDECS * nnds * nsizes * 3 + 1, sizeof(dec_item_t));
	for (int ni = 0; ni < nnds; ++ni) {
		int nd = nds[ni];
		if (nd < 1 || nd > RAID_DATA_MAX) continue;
		for (int i = 0; i < NDECS; ++i) {
			if (!DECS[i].runnable || !in_list(fns, DECS[i].name)) continue;
			for (int si = 0; si < nsizes; ++si)
				for (int k = 0; k < 3; ++k) {
					if (!in_list(families, famstore[k])) continue;
					dec_item_t *w = &D_items[D_nitems++];
					w->fi = i; w->nd = nd; w->size = sizes[si]; w->family = famstore[k];
					double sets = nd <= D_fullmax ? 5000 : (D_pairs ? (double)nd * nd * 8 : 3000);
					if (DECS[i].N == 1) sets /= 20;
					w->cost = sets * nd * sizes[si];
				}
		}
	}
	qsort(D_items, D_nitems, sizeof(dec_item_t), dec_item_cmp);
	int skipped = pool_run(threads, D_nitems, dec_work, dec_tls_new, dec_tls_free);
	long total = 0;
	int partial = 0;
	for (int it = 0; it < D_nitems; ++it) {
		dec_item_t *w = &D_items[it];
		if (!w->done) { say("SKIPPED fn=%s nd=%d size=%d family=%s\n", DECS[w->fi].name, w->nd, w->size, w->family); continue; }
		total += w->cases;
		partial += w->partial;
		say("ITEM fn=%s nd=%d size=%d family=%s mode=%d full=%d cases=%ld partial=%d\n", DECS[w->fi].name, w->nd, w->size,
			w->family, D_mode, w->nd <= D_fullmax, w->cases, w->partial);
	}
	for (size_t p = 0; p < DEC_MAXSIZE; ++p)
		if (DEC_ZERO[p]) { fail("C03/dec/zero-block-written", "-", "the raid_zero() block was written at byte %zu", p); break; }
	for (int i = 0; i < NDECS; ++i) say("FNCASES name=%s cases=%ld\n", DECS[i].name, DECS[i].cases);
	say("%s dec mode=%d cases=%ld skipped_items=%d partial_items=%d fails=%ld\n", (skipped || partial) ? "CAPPED" : "OK",
		D_mode, total, skipped, partial, g_nfail);
	return 0;
}

#endif
