/*
 * sched.c - cooperative scheduler for exhaustive exploration of thread interleavings.
 *
 * Replaces pthread_create/join/mutex_* /cond_* (link-time interposition: these definitions live in the harness
 * executable and win over libc's).  All threads are real pthreads but exactly one holds the run token.
 * Scheduling points: before mutex_lock, after mutex_unlock, at cond_wait (release + block), after cond_signal /
 * broadcast, after create, at join, at thread exit, and wherever the harness calls vps_point().
 * At each point the enabled threads are listed in canonical order (running thread first if still enabled, then
 * ascending id); the next entry of the replay prefix selects one (default 0).  Which waiter a cond_signal wakes is a
 * choice point too.  No enabled thread while one is alive = deadlock.  A prefix entry out of range = hard error.
 */
#define _GNU_SOURCE
#include <pthread.h>
#include <semaphore.h>
#include <dlfcn.h>
#include <stdio.h>
#include <stdlib.h>
#include <string.h>
#include <unistd.h>
#include <stdint.h>
#include "vpsched.h"

struct vps_thread vps_T[VPS_MAXT];
int vps_nthreads;
int vps_cur;
__thread int vps_site;
static int vps_active;
static const unsigned char* prefix;
static int nprefix;
static int ppos;
static struct vps_trace* tr;
uint64_t (*vps_fp_cb)(void);

static int (*real_create)(pthread_t*, const pthread_attr_t*, void* (*)(void*), void*);
static int (*real_join)(pthread_t, void**);

void vps_init(const unsigned char* pfx, int n, struct vps_trace* out)
{
	real_create = dlsym(RTLD_NEXT, "pthread_create");
	real_join = dlsym(RTLD_NEXT, "pthread_join");
	memset(vps_T, 0, sizeof(vps_T));
	vps_T[0].status = VPS_RUN;
	sem_init(&vps_T[0].go, 0, 0);
	vps_nthreads = 1;
	vps_cur = 0;
	prefix = pfx;
	nprefix = n;
	ppos = 0;
	tr = out;
	tr->npoints = 0;
	tr->result = VPS_RES_RUNNING;
	vps_active = 1;
}

void vps_finish(int result)
{
	if (tr->result == VPS_RES_RUNNING)
		tr->result = result;
	vps_active = 0;
}

#ifdef VPS_PRELOAD
void vps_preload_fail_hook(void);
#endif

void vps_fail(int result, const char* msg)
{
	if (tr->result == VPS_RES_RUNNING) {
		tr->result = result;
		snprintf(tr->msg, sizeof(tr->msg), "%s", msg);
	}
#ifdef VPS_PRELOAD
	vps_preload_fail_hook();
#endif
	_exit(10 + result);
}

static int choose(int n, int cur_enabled, int kind)
{
	int c = 0;
	if (ppos < nprefix) {
		c = prefix[ppos];
		if (c >= n) {
			char b[128];
			snprintf(b, sizeof(b), "replay divergence at choice %d: %d >= %d", ppos, c, n);
			vps_fail(VPS_RES_DIVERGE, b);
		}
	}
	if (tr->npoints < VPS_MAXPTS) {
		struct vps_point* p = &tr->pts[tr->npoints];
		p->n = (unsigned char)n;
		p->chosen = (unsigned char)c;
		p->cur_enabled = (unsigned char)cur_enabled;
		p->kind = (unsigned char)kind;
		p->fp = vps_fp_cb ? vps_fp_cb() : 0;
		++tr->npoints;
	} else {
		vps_fail(VPS_RES_TOOLONG, "too many choice points");
	}
	++ppos;
	return c;
}

/* pick the next thread to run; the current one keeps running if chosen */
static void schedule(int kind)
{
	int E[VPS_MAXT];
	int n = 0;
	int i;
	int me = vps_cur;
	int cur_enabled = vps_T[me].status == VPS_RUN;

	if (cur_enabled)
		E[n++] = me;
	for (i = 0; i < vps_nthreads; ++i)
		if (i != me && vps_T[i].status == VPS_RUN)
			E[n++] = i;
	if (n == 0) {
		int alive = 0;
		for (i = 0; i < vps_nthreads; ++i)
			if (vps_T[i].status != VPS_DONE)
				++alive;
		if (alive)
			vps_fail(VPS_RES_DEADLOCK, "deadlock: no enabled thread");
		return;
	}
	i = n > 1 ? choose(n, cur_enabled, kind) : 0;
	if (E[i] != me) {
		int next = E[i];
		vps_cur = next;
		sem_post(&vps_T[next].go);
		if (vps_T[me].status != VPS_DONE)
			sem_wait(&vps_T[me].go);
	}
}

void vps_point(int kind)
{
	if (!vps_active)
		return;
	schedule(kind);
}

struct fake_mutex {
	int owner; /* tid + 1, 0 = free */
};

int pthread_mutex_init(pthread_mutex_t* m, const pthread_mutexattr_t* a)
{
	(void)a;
	memset(m, 0, sizeof(*m));
	return 0;
}

int pthread_mutex_destroy(pthread_mutex_t* m)
{
	(void)m;
	return 0;
}

static void acquire(struct fake_mutex* fm)
{
	int me = vps_cur;
	while (fm->owner) {
		vps_T[me].status = VPS_MUTEX;
		vps_T[me].obj = fm;
		schedule(VPS_K_BLOCK);
	}
	fm->owner = me + 1;
}

static void release(struct fake_mutex* fm)
{
	int i;
	fm->owner = 0;
	for (i = 0; i < vps_nthreads; ++i)
		if (vps_T[i].status == VPS_MUTEX && vps_T[i].obj == fm) {
			vps_T[i].status = VPS_RUN;
			vps_T[i].obj = 0;
		}
}

int pthread_mutex_lock(pthread_mutex_t* m)
{
	struct fake_mutex* fm = (struct fake_mutex*)m;
	if (!vps_active) {
		return 0;
	}
	vps_T[vps_cur].site = vps_site;
	vps_T[vps_cur].op = VPS_K_LOCK;
	schedule(VPS_K_LOCK);
	acquire(fm);
	vps_T[vps_cur].op = 0;
	return 0;
}

int pthread_mutex_unlock(pthread_mutex_t* m)
{
	struct fake_mutex* fm = (struct fake_mutex*)m;
	if (!vps_active)
		return 0;
	if (fm->owner != vps_cur + 1)
		vps_fail(VPS_RES_MONITOR, "unlock of a mutex not owned");
	release(fm);
	vps_T[vps_cur].site = vps_site;
	vps_T[vps_cur].op = VPS_K_UNLOCK;
	schedule(VPS_K_UNLOCK);
	vps_T[vps_cur].op = 0;
	return 0;
}

int pthread_cond_init(pthread_cond_t* c, const pthread_condattr_t* a)
{
	(void)a;
	memset(c, 0, sizeof(*c));
	return 0;
}

int pthread_cond_destroy(pthread_cond_t* c)
{
	(void)c;
	return 0;
}

int pthread_cond_wait(pthread_cond_t* c, pthread_mutex_t* m)
{
	struct fake_mutex* fm = (struct fake_mutex*)m;
	int me = vps_cur;
	if (!vps_active)
		return 0;
	if (fm->owner != me + 1)
		vps_fail(VPS_RES_MONITOR, "cond_wait without owning the mutex");
	release(fm);
	vps_T[me].site = vps_site;
	vps_T[me].status = VPS_COND;
	vps_T[me].obj = c;
	vps_T[me].op = VPS_K_WAIT;
	schedule(VPS_K_WAIT);
	/* woken: re-acquire */
	acquire(fm);
	vps_T[me].op = 0;
	return 0;
}

static void wake_cond(pthread_cond_t* c, int all)
{
	int W[VPS_MAXT];
	int n = 0;
	int i;
	for (i = 0; i < vps_nthreads; ++i)
		if (vps_T[i].status == VPS_COND && vps_T[i].obj == c)
			W[n++] = i;
	if (n == 0)
		return;
	if (all) {
		for (i = 0; i < n; ++i) {
			vps_T[W[i]].status = VPS_RUN;
			vps_T[W[i]].obj = 0;
		}
	} else {
		i = n > 1 ? choose(n, 0, VPS_K_WAKE) : 0;
		vps_T[W[i]].status = VPS_RUN;
		vps_T[W[i]].obj = 0;
	}
}

int pthread_cond_signal(pthread_cond_t* c)
{
	if (!vps_active)
		return 0;
	wake_cond(c, 0);
	vps_T[vps_cur].site = vps_site;
	vps_T[vps_cur].op = VPS_K_SIGNAL;
	schedule(VPS_K_SIGNAL);
	vps_T[vps_cur].op = 0;
	return 0;
}

int pthread_cond_broadcast(pthread_cond_t* c)
{
	if (!vps_active)
		return 0;
	wake_cond(c, 1);
	vps_T[vps_cur].site = vps_site;
	vps_T[vps_cur].op = VPS_K_SIGNAL;
	schedule(VPS_K_SIGNAL);
	vps_T[vps_cur].op = 0;
	return 0;
}

static void* trampoline(void* arg)
{
	struct vps_thread* t = arg;
	int me = (int)(t - vps_T);
	int i;
	sem_wait(&t->go);
	t->ret = t->fn(t->arg);
	t->status = VPS_DONE;
	for (i = 0; i < vps_nthreads; ++i)
		if (vps_T[i].status == VPS_JOIN && vps_T[i].obj == t) {
			vps_T[i].status = VPS_RUN;
			vps_T[i].obj = 0;
		}
	(void)me;
	schedule(VPS_K_EXIT);
	return 0;
}

int pthread_create(pthread_t* th, const pthread_attr_t* a, void* (*fn)(void*), void* arg)
{
	struct vps_thread* t;
	if (!vps_active) {
		if (!real_create)
			real_create = dlsym(RTLD_NEXT, "pthread_create");
		return real_create(th, a, fn, arg);
	}
	if (vps_nthreads >= VPS_MAXT)
		vps_fail(VPS_RES_MONITOR, "too many threads");
	t = &vps_T[vps_nthreads];
	memset(t, 0, sizeof(*t));
	t->fn = fn;
	t->arg = arg;
	t->status = VPS_RUN;
	sem_init(&t->go, 0, 0);
	++vps_nthreads;
	if (real_create(&t->real, 0, trampoline, t) != 0)
		vps_fail(VPS_RES_MONITOR, "pthread_create failed");
	*th = t->real;
	vps_T[vps_cur].site = vps_site;
	schedule(VPS_K_CREATE);
	return 0;
}

int pthread_join(pthread_t th, void** ret)
{
	int i;
	struct vps_thread* t = 0;
	int me = vps_cur;
	if (!vps_active) {
		if (!real_join)
			real_join = dlsym(RTLD_NEXT, "pthread_join");
		return real_join(th, ret);
	}
	for (i = 1; i < vps_nthreads; ++i)
		if (pthread_equal(vps_T[i].real, th))
			t = &vps_T[i];
	if (!t)
		vps_fail(VPS_RES_MONITOR, "join of an unknown thread");
	vps_T[me].site = vps_site;
	vps_T[me].op = VPS_K_JOIN;
	while (t->status != VPS_DONE) {
		vps_T[me].status = VPS_JOIN;
		vps_T[me].obj = t;
		schedule(VPS_K_JOIN);
	}
	vps_T[me].op = 0;
	if (ret)
		*ret = t->ret;
	real_join(t->real, 0);
	return 0;
}

#ifdef VPS_PRELOAD
/*
 * preload mode: the scheduler drives an unmodified binary.  VPS_PREFIX = hex string of choices, VPS_OUT = file that
 * receives one 4-byte record (n, chosen, cur_enabled, kind) per choice point as it is taken, then a final text line.
 */
#include <fcntl.h>
static struct vps_trace ptrace_buf;
static int out_fd = -1;
static unsigned char pfx_buf[VPS_MAXPTS];

static void flush_trace(void)
{
	int i;
	if (out_fd < 0)
		return;
	for (i = 0; i < ptrace_buf.npoints; ++i) {
		unsigned char r[4] = { ptrace_buf.pts[i].n, ptrace_buf.pts[i].chosen, ptrace_buf.pts[i].cur_enabled, ptrace_buf.pts[i].kind };
		if (write(out_fd, r, 4) != 4)
			break;
	}
	{
		char b[400];
		int n = snprintf(b, sizeof(b), "\nEND result=%d msg=%s\n", ptrace_buf.result, ptrace_buf.msg);
		if (write(out_fd, b, n) != n) {
		}
	}
	close(out_fd);
	out_fd = -1;
}

__attribute__((constructor)) static void vps_preload_init(void)
{
	const char* e = getenv("VPS_EXE");
	const char* hx = getenv("VPS_PREFIX");
	const char* out = getenv("VPS_OUT");
	int n = 0;
	if (e) {
		char buf[4096];
		ssize_t l = readlink("/proc/self/exe", buf, sizeof(buf) - 1);
		if (l < 0) return;
		buf[l] = 0;
		if (strcmp(buf, e) != 0) return;
	}
	if (!out)
		return;
	if (hx) {
		for (n = 0; hx[2 * n] && hx[2 * n + 1] && n < VPS_MAXPTS; ++n) {
			unsigned v;
			sscanf(hx + 2 * n, "%2x", &v);
			pfx_buf[n] = (unsigned char)v;
		}
	}
	out_fd = open(out, O_WRONLY | O_CREAT | O_TRUNC | O_CLOEXEC, 0644);
	vps_init(pfx_buf, n, &ptrace_buf);
	atexit(flush_trace);
}

void vps_preload_fail_hook(void)
{
	flush_trace();
}
#endif
