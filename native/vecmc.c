/*
 * vecmc - emits digest / checksum / parity vectors computed by the snapraid code it is linked with.
 * Output (binary, stdout), for a deterministic input stream (LCG bytes) known to the Python side:
 *   for kind in {murmur3=1, spooky2=2}, seed s in 0..3, length n in 0..1100:   16 bytes digest of input[s*7 .. s*7+n)
 *   for length n in 0..300: crc32c_gen(0, input, n) and crc32c_x86 (if available, else same) little endian 4+4 bytes
 *   crc of a long buffer with non-zero initial value
 *   parity: 8 data blocks of 256 bytes -> 6 cauchy parities then 3 power parities
 */
#include "portable.h"
#include "util.h"
#include "elem.h"
#include "raid/raid.h"
#include "raid/cpu.h"

static unsigned char input[8192];

int main(void)
{
	uint32_t x = 12345;
	unsigned i, s, n, k;
	unsigned char seed[16];
	unsigned char dig[16];
	void* v[8 + 6];
	unsigned char* mem;

	for (i = 0; i < sizeof(input); ++i) {
		x = x * 1103515245u + 12345u;
		input[i] = (unsigned char)(x >> 16);
	}
	crc32c_init();
	raid_init();
	for (k = 1; k <= 2; ++k) {
		for (s = 0; s < 4; ++s) {
			for (i = 0; i < 16; ++i) seed[i] = s == 0 ? 0 : (unsigned char)(s * 37 + i * 11);
			for (n = 0; n <= 1100; ++n) {
				memset(dig, 0, 16);
				memhash(k == 1 ? HASH_MURMUR3 : HASH_SPOOKY2, seed, dig, input + s * 7, n);
				fwrite(dig, 1, 16, stdout);
			}
		}
	}
	for (n = 0; n <= 300; ++n) {
		uint32_t a = crc32c_gen(0, input, n);
		uint32_t b = a;
#if HAVE_SSE42
		if (raid_cpu_has_crc32()) b = crc32c_x86(0, input, n);
#endif
		fwrite(&a, 4, 1, stdout);
		fwrite(&b, 4, 1, stdout);
	}
	{
		uint32_t a = crc32c_gen(0xdeadbeef, input, 8000);
		uint32_t b = crc32c(0xdeadbeef, input, 8000);
		fwrite(&a, 4, 1, stdout);
		fwrite(&b, 4, 1, stdout);
	}
	mem = 0;
	if (posix_memalign((void**)&mem, 256, 14 * 256) != 0) return 1;
	for (i = 0; i < 14; ++i) v[i] = mem + i * 256;
	for (i = 0; i < 8 * 256; ++i) mem[i] = input[100 + i];
	raid_mode(RAID_MODE_CAUCHY);
	raid_gen(8, 6, 256, v);
	fwrite(mem + 8 * 256, 1, 6 * 256, stdout);
	raid_mode(RAID_MODE_VANDERMONDE);
	raid_gen(8, 3, 256, v);
	fwrite(mem + 8 * 256, 1, 3 * 256, stdout);
	fflush(stdout);
	return 0;
}
