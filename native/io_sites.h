/* included before cmdline/io.c by the ring harness: records the source line of every synchronisation call so that
   a thread's continuation can be part of the state fingerprint. No source change: io.c is compiled as it is. */
#include "portable.h"
#include "support.h"
#include "vpsched.h"
#define thread_mutex_lock(m) (vps_site = __LINE__, thread_mutex_lock(m))
#define thread_mutex_unlock(m) (vps_site = __LINE__, thread_mutex_unlock(m))
#define thread_cond_wait(c, m) (vps_site = __LINE__, thread_cond_wait(c, m))
#define thread_cond_signal(c) (vps_site = __LINE__, thread_cond_signal(c))
#define thread_cond_broadcast(c) (vps_site = __LINE__, thread_cond_broadcast(c))
#define thread_cond_signal_and_unlock(c, m) (vps_site = __LINE__, thread_cond_signal_and_unlock(c, m))
#define thread_cond_broadcast_and_unlock(c, m) (vps_site = __LINE__, thread_cond_broadcast_and_unlock(c, m))
#define thread_create(t, f, a) (vps_site = __LINE__, thread_create(t, f, a))
#define thread_join(t, r) (vps_site = __LINE__, thread_join(t, r))
