/*
 * vpref - reference implementations used as oracles.  Written from the published
 * algorithms / the mathematical definitions; shares no code and no table with snapraid.
 *
 *   GF(2^8) with polynomial 0x11d by shift-and-xor
 *   generator matrices from their definition (extended Cauchy, power)
 *   MurmurHash3_x86_128 with a 128-bit seed, SpookyHash V2 (long form only, as
 *   documented in snapraid), CRC-32C (Castagnoli, reflected, bitwise)
 */
#include <stdint.h>
#include <string.h>
#include <stdlib.h>
#include "vpref.h"

/****************************************************************************/
/* field */

uint8_t vp_gfmul(uint8_t a, uint8_t b)
{
	unsigned r = 0;
	unsigned x = a;
	while (b) {
		if (b & 1) r ^= x;
		x <<= 1;
		if (x & 0x100) x ^= 0x11d;
		b >>= 1;
	}
	return (uint8_t)r;
}

uint8_t vp_gfpow(uint8_t a, unsigned e)
{
	uint8_t r = 1;
	while (e--) r = vp_gfmul(r, a);
	return r;
}

uint8_t vp_gfinv(uint8_t a)
{
	/* a^254 */
	if (a == 0) return 0;
	return vp_gfpow(a, 254);
}

static uint8_t MUL[256][256];
static int mul_ready;

static void mul_init(void)
{
	if (mul_ready) return;
	for (int a = 0; a < 256; ++a)
		for (int b = 0; b < 256; ++b)
			MUL[a][b] = vp_gfmul(a, b);
	mul_ready = 1;
}

const uint8_t* vp_gfmul_row(uint8_t a)
{
	mul_init();
	return MUL[a];
}

/*
 * Extended Cauchy matrix 6 x 251:
 *  row 0: all ones; row 1: 2^i ; row j>=2: 1/(2^-i + 2^(j-1)), every row then divided by its first element.
 */
void vp_cauchy(uint8_t m[6][256])
{
	memset(m, 0, 6 * 256);
	for (int i = 0; i < 251; ++i) {
		uint8_t p2i = vp_gfpow(2, i);
		uint8_t x = vp_gfinv(p2i); /* 2^-i */
		m[0][i] = 1;
		m[1][i] = p2i;
		for (int j = 2; j < 6; ++j) {
			uint8_t y = vp_gfpow(2, j - 1);
			m[j][i] = vp_gfinv(x ^ y);
		}
	}
	for (int j = 0; j < 6; ++j) {
		uint8_t f = vp_gfinv(m[j][0]);
		for (int i = 0; i < 251; ++i)
			m[j][i] = vp_gfmul(m[j][i], f);
	}
}

/* power matrix 3 x 255: 1, 2^i, 2^-i */
void vp_vandermonde(uint8_t m[3][256])
{
	memset(m, 0, 3 * 256);
	for (int i = 0; i < 255; ++i) {
		uint8_t p = vp_gfpow(2, i);
		m[0][i] = 1;
		m[1][i] = p;
		m[2][i] = vp_gfinv(p);
	}
}

/*
 * parity[j] = sum_i A[row[j]][col[i]] * data[i]  over `size` bytes.
 * mode 0 = cauchy, 1 = power (z)
 */
void vp_parity(int mode, int nd, const int* col, const uint8_t* const* data, int np, uint8_t** parity, size_t size)
{
	static uint8_t C[6][256], V[3][256];
	static int ready;
	mul_init();
	if (!ready) {
		vp_cauchy(C);
		vp_vandermonde(V);
		ready = 1;
	}
	for (int j = 0; j < np; ++j) {
		memset(parity[j], 0, size);
		for (int i = 0; i < nd; ++i) {
			uint8_t c = mode ? V[j][col[i]] : C[j][col[i]];
			const uint8_t* row = MUL[c];
			const uint8_t* d = data[i];
			uint8_t* p = parity[j];
			for (size_t k = 0; k < size; ++k)
				p[k] ^= row[d[k]];
		}
	}
}

/* flat-buffer variant for ctypes: data = nd blocks of size bytes, parity = np blocks */
void vp_parity_flat(int mode, int nd, const int* col, const uint8_t* data, int np, uint8_t* parity, size_t size)
{
	const uint8_t* d[256];
	uint8_t* p[6];
	for (int i = 0; i < nd; ++i) d[i] = data + (size_t)i * size;
	for (int j = 0; j < np; ++j) p[j] = parity + (size_t)j * size;
	vp_parity(mode, nd, col, d, np, p, size);
}

/****************************************************************************/
/* crc32c */

uint32_t vp_crc32c(uint32_t crc, const uint8_t* p, size_t size)
{
	static uint32_t T[256];
	static int ready;
	if (!ready) {
		for (uint32_t i = 0; i < 256; ++i) {
			uint32_t c = i;
			for (int k = 0; k < 8; ++k)
				c = (c & 1) ? (c >> 1) ^ 0x82F63B78u : c >> 1;
			T[i] = c;
		}
		ready = 1;
	}
	crc = ~crc;
	while (size--)
		crc = T[(crc ^ *p++) & 0xff] ^ (crc >> 8);
	return ~crc;
}

/****************************************************************************/
/* murmur3 x86 128 */

static inline uint32_t rl32(uint32_t x, int r) { return (x << r) | (x >> (32 - r)); }
static inline uint64_t rl64(uint64_t x, int r) { return (x << r) | (x >> (64 - r)); }
static inline uint32_t ld32(const uint8_t* p) { return p[0] | (uint32_t)p[1] << 8 | (uint32_t)p[2] << 16 | (uint32_t)p[3] << 24; }
static inline uint64_t ld64(const uint8_t* p) { return ld32(p) | (uint64_t)ld32(p + 4) << 32; }
static inline void st32(uint8_t* p, uint32_t v) { p[0] = v; p[1] = v >> 8; p[2] = v >> 16; p[3] = v >> 24; }
static inline void st64(uint8_t* p, uint64_t v) { st32(p, (uint32_t)v); st32(p + 4, (uint32_t)(v >> 32)); }

static uint32_t mfmix(uint32_t h)
{
	h ^= h >> 16; h *= 0x85ebca6bu; h ^= h >> 13; h *= 0xc2b2ae35u; h ^= h >> 16;
	return h;
}

void vp_murmur3(const uint8_t* data, size_t size, const uint8_t seed[16], uint8_t out[16])
{
	static const uint32_t c[4] = { 0x239b961bu, 0xab0e9789u, 0x38b34ae5u, 0xa1e38b93u };
	static const int krot[4] = { 15, 16, 17, 18 };
	static const int hrot[4] = { 19, 17, 15, 13 };
	static const uint32_t hadd[4] = { 0x561ccd1bu, 0x0bcaa747u, 0x96cd1c35u, 0x32ac3b17u };
	uint32_t h[4];
	for (int i = 0; i < 4; ++i) h[i] = ld32(seed + 4 * i);
	size_t nb = size / 16;
	for (size_t b = 0; b < nb; ++b) {
		for (int i = 0; i < 4; ++i) {
			uint32_t k = ld32(data + b * 16 + 4 * i);
			k *= c[i]; k = rl32(k, krot[i]); k *= c[(i + 1) & 3];
			h[i] ^= k;
			h[i] = rl32(h[i], hrot[i]); h[i] += h[(i + 1) & 3]; h[i] = h[i] * 5 + hadd[i];
		}
	}
	const uint8_t* tail = data + nb * 16;
	size_t rem = size & 15;
	for (int i = 3; i >= 0; --i) {
		/* lane i covers tail bytes 4i .. 4i+3 */
		if (rem > (size_t)4 * i) {
			uint32_t k = 0;
			for (size_t j = 4 * i; j < rem && j < (size_t)4 * i + 4; ++j)
				k ^= (uint32_t)tail[j] << (8 * (j - 4 * i));
			k *= c[i]; k = rl32(k, krot[i]); k *= c[(i + 1) & 3];
			h[i] ^= k;
		}
	}
	for (int i = 0; i < 4; ++i) h[i] ^= (uint32_t)size;
	h[0] += h[1]; h[0] += h[2]; h[0] += h[3];
	h[1] += h[0]; h[2] += h[0]; h[3] += h[0];
	for (int i = 0; i < 4; ++i) h[i] = mfmix(h[i]);
	h[0] += h[1]; h[0] += h[2]; h[0] += h[3];
	h[1] += h[0]; h[2] += h[0]; h[3] += h[0];
	for (int i = 0; i < 4; ++i) st32(out + 4 * i, h[i]);
}

/****************************************************************************/
/* spooky v2, long form for every length */

void vp_spooky2(const uint8_t* data, size_t size, const uint8_t seed[16], uint8_t out[16])
{
	static const int R[12] = { 11, 32, 43, 31, 17, 28, 39, 57, 55, 54, 22, 46 };
	static const int E[12] = { 44, 15, 34, 21, 38, 33, 10, 13, 38, 53, 42, 54 };
	uint64_t h[12];
	uint64_t s0 = ld64(seed), s1 = ld64(seed + 8);
	for (int i = 0; i < 12; i += 3) {
		h[i] = s0; h[i + 1] = s1; h[i + 2] = 0xdeadbeefdeadbeefULL;
	}
	size_t nb = size / 96;
	for (size_t b = 0; b < nb; ++b) {
		const uint8_t* p = data + b * 96;
		for (int i = 0; i < 12; ++i) {
			h[i] += ld64(p + 8 * i);
			h[(i + 2) % 12] ^= h[(i + 10) % 12];
			h[(i + 11) % 12] ^= h[i];
			h[i] = rl64(h[i], R[i]);
			h[(i + 11) % 12] += h[(i + 1) % 12];
		}
	}
	uint8_t buf[96];
	size_t rem = size - nb * 96;
	memset(buf, 0, sizeof(buf));
	memcpy(buf, data + nb * 96, rem);
	buf[95] = (uint8_t)rem;
	for (int i = 0; i < 12; ++i) h[i] += ld64(buf + 8 * i);
	for (int round = 0; round < 3; ++round) {
		for (int i = 0; i < 12; ++i) {
			h[(i + 11) % 12] += h[(i + 1) % 12];
			h[(i + 2) % 12] ^= h[(i + 11) % 12];
			h[(i + 1) % 12] = rl64(h[(i + 1) % 12], E[i]);
		}
	}
	st64(out, h[0]);
	st64(out + 8, h[1]);
}

/* kind: 1 murmur3, 2 spooky2 */
void vp_hash(int kind, const uint8_t* data, size_t size, const uint8_t seed[16], uint8_t out[16])
{
	if (kind == 1) vp_murmur3(data, size, seed, out);
	else vp_spooky2(data, size, seed, out);
}
