/*
 * iomc - exhaustive exploration of the interleavings of snapraid's I/O ring (cmdline/io.c, compiled as it is and
 * included textually below) under the cooperative scheduler of sched.c.
 *
 * The driver issues exactly the call sequence of state_sync_process / state_scrub_process; the worker callbacks are
 * harness supplied and contain a scheduling point between a begin mark and an end mark, so that "I/O in progress"
 * is a state the caller can run into.  Monitors: buffer ownership, exactly-once-in-order, termination, writer error
 * accounting.  Exploration: stateless DFS over choice prefixes, one forked child per execution; either pruned by
 * fingerprints of the complete shared state + thread continuations (unbounded) or preemption bounded.
 */
#define _GNU_SOURCE
#include <sched.h>
#include "io_sites.h"
#include "cmdline/io.c"
#include <sys/mman.h>
#include <sys/wait.h>

/* parameters of one scenario */
static int P_flush = -1;                             /* stop >= 100: no early stop, io_flush() after stripe stop - 100 (what an autosave does) */
static int P_iomax, P_nd, P_np, P_ns, P_enabled, P_skip, P_stop, P_role, P_sigout, P_errw, P_errpos, P_rerr, P_rerrpos;

#define MAXBUF 8
#define MAXSLOT 8
enum { IDLE, WORKER, MAINUSE };

static struct snapraid_state st;
static struct snapraid_io io;
static struct snapraid_handle handle_map[MAXBUF];
static struct snapraid_parity_handle parity_map[MAXBUF];

static unsigned char own[MAXSLOT][2 * MAXBUF];       /* [slot][buffer index] */
static unsigned content[MAXSLOT][2 * MAXBUF];       /* position + 1 last put in that buffer */
static int expect_r[2 * MAXBUF];                     /* per reader: index in the enabled list */
static int expect_w[MAXBUF];
static int expect_main;
static int main_stripe, main_phase;
static int collected_err, injected_err;
static int enabled_list[32], n_enabled;
static int wlist[32], n_w;                           /* positions that are written (enabled and not skipped) */
static struct vps_trace* TR;

#define FAIL(...) do { char b_[240]; snprintf(b_, sizeof(b_), __VA_ARGS__); vps_fail(VPS_RES_MONITOR, b_); } while (0)

static int slot_of(struct snapraid_worker* w, struct snapraid_task* t)
{
	return (int)(t - w->task_map);
}

static void h_data_reader(struct snapraid_worker* w, struct snapraid_task* t)
{
	int idx = (int)(w - io.reader_map);
	int slot = slot_of(w, t);
	int me = vps_cur;
	if (expect_r[idx] >= n_enabled || (int)t->position != enabled_list[expect_r[idx]])
		FAIL("reader %d got position %u, expected entry %d of the enabled list", idx, t->position, expect_r[idx]);
	++expect_r[idx];
	if (own[slot][idx] == MAINUSE)
		FAIL("reader %d reads into slot %d while the caller is using that buffer (pos %u)", idx, slot, t->position);
	if (own[slot][idx] == WORKER)
		FAIL("reader %d: slot %d already has a read in progress", idx, slot);
	if (t->buffer != io.buffer_map[slot][idx + w->buffer_skew])
		FAIL("reader %d: task buffer is not the buffer of slot %d", idx, slot);
	own[slot][idx] = WORKER;
	vps_T[me].phase = 100 + slot;
	vps_point(VPS_K_USER);
	vps_T[me].phase = 0;
	own[slot][idx] = IDLE;
	content[slot][idx] = t->position + 1;
	if (P_rerr == idx && (int)t->position == P_rerrpos)
		t->state = TASK_STATE_IOERROR_CONTINUE;
	else
		t->state = TASK_STATE_DONE;
}

static void h_parity_writer(struct snapraid_worker* w, struct snapraid_task* t)
{
	int l = (int)(w - io.writer_map);
	int slot = slot_of(w, t);
	int b = P_nd + l;
	int me = vps_cur;
	if (expect_w[l] >= n_w || (int)t->position != wlist[expect_w[l]])
		FAIL("writer %d got position %u, expected entry %d of the write list", l, t->position, expect_w[l]);
	++expect_w[l];
	if (own[slot][b] != IDLE)
		FAIL("writer %d writes from slot %d while the buffer is in use (%d) (pos %u)", l, slot, own[slot][b], t->position);
	if (content[slot][b] != t->position + 1)
		FAIL("writer %d: slot %d holds parity of position %d, not of %u", l, slot, (int)content[slot][b] - 1, t->position);
	own[slot][b] = WORKER;
	vps_T[me].phase = 200 + slot;
	vps_point(VPS_K_USER);
	own[slot][b] = IDLE;
	if (P_errw == l && (int)t->position == P_errpos)
		t->state = TASK_STATE_IOERROR_CONTINUE;
	else
		t->state = TASK_STATE_DONE;
	vps_T[me].phase = 1000 + t->state;    /* = latest_state of io_writer_thread */
}

static uint64_t mix(uint64_t h, uint64_t v)
{
	h ^= v + 0x9e3779b97f4a7c15ULL + (h << 6) + (h >> 2);
	return h * 0x100000001b3ULL;
}

static int objid(const void* o)
{
	if (o == 0) return 0;
	if (o == &io.io_mutex) return 1;
	if (o == &io.read_done) return 2;
	if (o == &io.read_sched) return 3;
	if (o == &io.write_done) return 4;
	if (o == &io.write_sched) return 5;
	if ((const char*)o >= (const char*)vps_T && (const char*)o < (const char*)(vps_T + VPS_MAXT))
		return 10 + (int)((const struct vps_thread*)o - vps_T);
	return 99;
}

static uint64_t fingerprint(void)
{
	uint64_t h = 1469598103934665603ULL;
	unsigned i, s;
	h = mix(h, io.reader_index); h = mix(h, io.writer_index); h = mix(h, io.done); h = mix(h, io.block_next);
	h = mix(h, *(int*)&io.io_mutex);
	for (i = 0; i < IO_WRITER_ERROR_MAX; ++i) h = mix(h, io.writer_error[i]);
	for (i = 0; i <= io.reader_max; ++i) h = mix(h, io.reader_list[i]);
	for (i = 0; i <= io.writer_max; ++i) h = mix(h, io.writer_list[i]);
	for (i = 0; i < io.reader_max; ++i) {
		h = mix(h, io.reader_map[i].index);
		for (s = 0; s < io.io_max; ++s) { h = mix(h, io.reader_map[i].task_map[s].state + 8); h = mix(h, io.reader_map[i].task_map[s].position); }
		h = mix(h, expect_r[i]);
	}
	for (i = 0; i < io.writer_max; ++i) {
		h = mix(h, io.writer_map[i].index);
		for (s = 0; s < io.io_max; ++s) { h = mix(h, io.writer_map[i].task_map[s].state + 8); h = mix(h, io.writer_map[i].task_map[s].position); }
		h = mix(h, expect_w[i]);
	}
	for (s = 0; s < io.io_max; ++s)
		for (i = 0; i < 2 * MAXBUF; ++i) { h = mix(h, own[s][i]); h = mix(h, content[s][i]); }
	h = mix(h, expect_main); h = mix(h, main_stripe); h = mix(h, main_phase); h = mix(h, collected_err);
	h = mix(h, vps_cur);
	for (i = 0; i < (unsigned)vps_nthreads; ++i) {
		h = mix(h, vps_T[i].status); h = mix(h, objid(vps_T[i].obj)); h = mix(h, vps_T[i].site); h = mix(h, vps_T[i].op);
		h = mix(h, vps_T[i].phase);
	}
	return h;
}

static void scenario(void)
{
	int i, l, j;
	bit_vect_t* be;
	unsigned waiting_map[32], waiting_mac;
	int blockmax = P_ns;

	memset(&st, 0, sizeof(st));
	st.block_size = 64;
	st.opt.skip_self = 1;
	st.file_mode = ADVISE_NONE;
	tommy_list_init(&st.disklist);
	thread_cond_signal_outside = P_sigout;
	for (l = 0; l < P_np; ++l)
		parity_map[l].level = l;
	n_enabled = 0;
	n_w = 0;
	be = calloc(1, bit_vect_size(blockmax));
	for (i = 0; i < blockmax; ++i)
		if (P_enabled & (1 << i)) {
			bit_vect_set(be, i);
			enabled_list[n_enabled++] = i;
			if (!(P_skip & (1 << i)))
				wlist[n_w++] = i;
		}
	if (P_errw >= 0) {
		for (i = 0; i < n_w; ++i)
			if (wlist[i] == P_errpos)
				injected_err = 1;
	}
	vps_fp_cb = fingerprint;
	if (P_role == 0)
		io_init(&io, &st, P_iomax, P_nd + P_np, h_data_reader, handle_map, P_nd, 0, h_parity_writer, parity_map, P_np);
	else
		io_init(&io, &st, P_iomax, P_nd + 2 * P_np, h_data_reader, handle_map, P_nd, h_data_reader, 0, parity_map, P_np);
	io_start(&io, 0, blockmax, be);
	main_stripe = 0;
	while (1) {
		void** buffer;
		block_off_t pos;
		unsigned slot;
		int writer_error[IO_WRITER_ERROR_MAX];
		int nread = P_role == 0 ? P_nd : P_nd + P_np;

		main_phase = 1;
		/* the data buffers of the slot used so far go back to the readers with the next io_read_next() */
		if (main_stripe > 0) {
			slot = io.reader_index;
			for (j = 0; j < nread; ++j)
				if (own[slot][j] == MAINUSE)
					own[slot][j] = IDLE;
		}
		pos = io_read_next(&io, &buffer);
		if ((int)pos >= blockmax) {
			if (expect_main != n_enabled)
				FAIL("caller reached the end after %d of %d enabled stripes", expect_main, n_enabled);
			break;
		}
		if (expect_main >= n_enabled || (int)pos != enabled_list[expect_main])
			FAIL("caller got position %u, expected entry %d of the enabled list", pos, expect_main);
		++expect_main;
		slot = io.reader_index;
		if (buffer != io.buffer_map[slot])
			FAIL("caller buffer is not the buffer of slot %u", slot);
		main_phase = 2;
		for (j = 0; j < P_nd; ++j) {
			unsigned diskcur;
			struct snapraid_task* task = io_data_read(&io, &diskcur, waiting_map, &waiting_mac);
			if (own[slot][diskcur] == WORKER)
				FAIL("caller uses data buffer %u of slot %u while its read is in progress (pos %u)", diskcur, slot, pos);
			if (task->position != pos || content[slot][diskcur] != pos + 1)
				FAIL("caller got data of position %d (task %u) for position %u", (int)content[slot][diskcur] - 1, task->position, pos);
			if (own[slot][diskcur] == MAINUSE)
				FAIL("data buffer %u of slot %u handed out twice", diskcur, slot);
			own[slot][diskcur] = MAINUSE;
		}
		if (P_role == 1) {
			for (l = 0; l < P_np; ++l) {
				unsigned levcur;
				struct snapraid_task* task = io_parity_read(&io, &levcur, waiting_map, &waiting_mac);
				unsigned b = P_nd + levcur;
				if (own[slot][b] == WORKER)
					FAIL("caller uses parity buffer %u of slot %u while its read is in progress", levcur, slot);
				if (task->position != pos || content[slot][b] != pos + 1)
					FAIL("caller got parity of position %d for position %u", (int)content[slot][b] - 1, pos);
				own[slot][b] = MAINUSE;
			}
			main_phase = 3;
			vps_point(VPS_K_USER);     /* "computing" on the buffers */
		} else {
			int skip = (P_skip >> pos) & 1;
			main_phase = 3;
			for (l = 0; l < P_np; ++l) {
				if (own[slot][P_nd + l] == WORKER)
					FAIL("caller computes parity %d into slot %u while a write from it is in progress (pos %u)", l, slot, pos);
			}
			vps_point(VPS_K_USER);     /* "computing" on the buffers */
			for (l = 0; l < P_np; ++l) {
				if (own[slot][P_nd + l] == WORKER)
					FAIL("caller computes parity %d into slot %u while a write from it is in progress (pos %u)", l, slot, pos);
				content[slot][P_nd + l] = pos + 1;
			}
			main_phase = 4;
			io_write_preset(&io, pos, skip);
			for (l = 0; l < P_np; ++l) {
				unsigned levcur;
				io_parity_write(&io, &levcur, waiting_map, &waiting_mac);
			}
			io_write_next(&io, pos, skip, writer_error);
			for (j = 0; j < IO_WRITER_ERROR_MAX; ++j)
				collected_err += writer_error[j];
			if (P_flush >= 0 && main_stripe == P_flush) {
				/* an autosave: when io_flush() returns, every scheduled parity write is complete */
				int sched = 0, s2;
				for (j = 0; j < n_w; ++j)
					if (wlist[j] <= (int)pos)
						++sched;
				main_phase = 7;
				io_flush(&io);
				for (l = 0; l < P_np; ++l) {
					if (expect_w[l] != sched)
						FAIL("flush-incomplete: io_flush returned, writer %d started %d of %d scheduled writes (pos %u)", l, expect_w[l], sched, pos);
					for (s2 = 0; s2 < P_iomax; ++s2)
						if (own[s2][P_nd + l] == WORKER)
							FAIL("flush-incomplete: io_flush returned while writer %d still writes from slot %d (pos %u)", l, s2, pos);
				}
			}
		}
		main_phase = 5;
		if (P_stop >= 0 && main_stripe == P_stop)
			break;
		++main_stripe;
	}
	main_phase = 6;
	io_stop(&io);
	for (i = 1; i < vps_nthreads; ++i)
		if (vps_T[i].status != VPS_DONE)
			FAIL("thread %d still alive after io_stop", i);
	if (P_stop < 0) {
		for (i = 0; i < P_nd; ++i)
			if (expect_r[i] != n_enabled)
				FAIL("reader %d processed %d of %d enabled stripes", i, expect_r[i], n_enabled);
		for (l = 0; l < P_np && P_role == 0; ++l)
			if (expect_w[l] != n_w)
				FAIL("writer %d wrote %d of %d stripes", l, expect_w[l], n_w);
		if (P_role == 0 && collected_err != injected_err) {
			char b[128];
			snprintf(b, sizeof(b), "writer-error-lost: injected %d collected %d (position %d of write list size %d)", injected_err, collected_err, P_errpos, n_w);
			vps_fail(VPS_RES_MONITOR, b);
		}
	}
	io_done(&io);
}

/****************************************************************************/
/* explorer */

static int run_child(const unsigned char* prefix, int len)
{
	pid_t p;
	int status;
	TR->npoints = 0;
	TR->result = VPS_RES_RUNNING;
	TR->msg[0] = 0;
	fflush(stdout);
	p = fork();
	if (p == 0) {
		int fd = open("/dev/null", O_WRONLY);
		dup2(fd, 1);
		dup2(fd, 2);
		alarm(20);
		{
			/* all threads of one execution on one CPU: hand-offs become cheap same-core context switches */
			cpu_set_t cs;
			CPU_ZERO(&cs);
			CPU_SET(sched_getcpu(), &cs);
			sched_setaffinity(0, sizeof(cs), &cs);
		}
		vps_init(prefix, len, TR);
		scenario();
		vps_finish(VPS_RES_OK);
		_exit(0);
	}
	waitpid(p, &status, 0);
	if (WIFSIGNALED(status)) {
		if (TR->result == VPS_RES_RUNNING || TR->result == VPS_RES_OK) {
			TR->result = VPS_RES_CRASH;
			snprintf(TR->msg, sizeof(TR->msg), "child died with signal %d%s", WTERMSIG(status), WTERMSIG(status) == SIGALRM ? " (timeout: livelock?)" : WTERMSIG(status) == SIGABRT ? " (assertion in io.c)" : "");
		}
	} else if (TR->result == VPS_RES_RUNNING) {
		TR->result = VPS_RES_CRASH;
		snprintf(TR->msg, sizeof(TR->msg), "child exited %d without finishing", WEXITSTATUS(status));
	}
	return TR->result;
}

struct item {
	int len;
	unsigned char* c;
};

static uint64_t* vis;
static size_t vis_cap, vis_n;

static int vis_add(uint64_t k)
{
	size_t i;
	if (k == 0) k = 1;
	if (vis_n * 2 >= vis_cap) {
		size_t oc = vis_cap, j;
		uint64_t* o = vis;
		vis_cap = vis_cap ? vis_cap * 2 : 1 << 16;
		vis = calloc(vis_cap, sizeof(uint64_t));
		vis_n = 0;
		for (j = 0; j < oc; ++j)
			if (o[j]) vis_add(o[j]);
		free(o);
	}
	i = (size_t)(k * 0x9e3779b97f4a7c15ULL) & (vis_cap - 1);
	while (vis[i]) {
		if (vis[i] == k) return 0;
		i = (i + 1) & (vis_cap - 1);
	}
	vis[i] = k;
	++vis_n;
	return 1;
}

static void hexout(const unsigned char* c, int n)
{
	int i;
	for (i = 0; i < n; ++i) printf("%02x", c[i]);
}

int main(int argc, char** argv)
{
	int mode, bound;
	long maxexec, execs = 0, points = 0, viol = 0, capped = 0;
	int maxpts = 0;
	struct item* stack = 0;
	size_t sp = 0, scap = 0;
	unsigned char pfx[VPS_MAXPTS];
	time_t deadline;

	if (argc < 18) {
		fprintf(stderr, "usage: iomc explore|replay iomax nd np nstripes enabled skip stop role sigout errw errpos rerr rerrpos mode bound maxexec seconds [prefixhex]\n");
		return 2;
	}
	P_iomax = atoi(argv[2]); P_nd = atoi(argv[3]); P_np = atoi(argv[4]); P_ns = atoi(argv[5]);
	P_enabled = strtol(argv[6], 0, 0); P_skip = strtol(argv[7], 0, 0); P_stop = atoi(argv[8]); P_role = atoi(argv[9]);
	P_sigout = atoi(argv[10]); P_errw = atoi(argv[11]); P_errpos = atoi(argv[12]); P_rerr = atoi(argv[13]); P_rerrpos = atoi(argv[14]);
	if (P_stop >= 100) { P_flush = P_stop - 100; P_stop = -1; }
	mode = atoi(argv[15]); bound = atoi(argv[16]); maxexec = atol(argv[17]);
	deadline = time(0) + (argc > 18 ? atoi(argv[18]) : 3600);
	TR = mmap(0, sizeof(struct vps_trace), PROT_READ | PROT_WRITE, MAP_SHARED | MAP_ANONYMOUS, -1, 0);

	if (strcmp(argv[1], "replay") == 0) {
		const char* hx = argc > 19 ? argv[19] : "";
		int n = (int)strlen(hx) / 2, i, r1, r2, np1;
		char m1[256];
		for (i = 0; i < n; ++i) { unsigned v; sscanf(hx + 2 * i, "%2x", &v); pfx[i] = (unsigned char)v; }
		r1 = run_child(pfx, n); np1 = TR->npoints; snprintf(m1, sizeof(m1), "%s", TR->msg);
		r2 = run_child(pfx, n);
		printf("REPLAY result=%d points=%d msg=%s\n", r1, np1, m1);
		if (r1 != r2 || np1 != TR->npoints || strcmp(m1, TR->msg) != 0)
			printf("NONDETERMINISTIC second run result=%d points=%d msg=%s\n", r2, TR->npoints, TR->msg);
		return r1 == VPS_RES_OK ? 0 : 1;
	}

	/* push the empty prefix */
	scap = 1024; stack = malloc(scap * sizeof(*stack));
	stack[sp].len = 0; stack[sp].c = malloc(1); ++sp;
	while (sp) {
		struct item it = stack[--sp];
		int r, i, pre;
		if (execs >= maxexec || time(0) > deadline) { capped = 1; free(it.c); break; }
		memcpy(pfx, it.c, it.len);
		r = run_child(pfx, it.len);
		++execs;
		points += TR->npoints;
		if (TR->npoints > maxpts) maxpts = TR->npoints;
		if (r != VPS_RES_OK) {
			++viol;
			if (viol <= 8) {
				printf("VIOL result=%d prefix=", r);
				for (i = 0; i < TR->npoints; ++i) printf("%02x", TR->pts[i].chosen);
				printf(" msg=%s\n", TR->msg);
			}
			if (r == VPS_RES_DIVERGE || r == VPS_RES_TOOLONG) { free(it.c); continue; }
		}
		/* preemptions spent inside the prefix */
		pre = 0;
		for (i = 0; i < it.len && i < TR->npoints; ++i)
			if (TR->pts[i].cur_enabled && TR->pts[i].chosen != 0) ++pre;
		for (i = it.len; i < TR->npoints; ++i) {
			struct vps_point* p = &TR->pts[i];
			int alt;
			if (mode == 0) {
				if (!vis_add(p->fp ^ ((uint64_t)p->kind << 56) ^ ((uint64_t)p->n << 48)))
					break;  /* this state was expanded before: everything below is covered */
			}
			for (alt = p->n - 1; alt >= 1; --alt) {
				int cost = pre + (p->cur_enabled ? 1 : 0);
				int k;
				if (mode == 1 && cost > bound) continue;
				if (sp == scap) { scap *= 2; stack = realloc(stack, scap * sizeof(*stack)); }
				stack[sp].len = i + 1;
				stack[sp].c = malloc(i + 1);
				for (k = 0; k < i; ++k) stack[sp].c[k] = TR->pts[k].chosen;
				stack[sp].c[i] = (unsigned char)alt;
				++sp;
			}
			/* the default continuation (choice 0) never costs a preemption */
		}
		free(it.c);
	}
	while (sp) free(stack[--sp].c);
	printf("RESULT execs=%ld states=%zu points=%ld maxpoints=%d violations=%ld capped=%ld\n", execs, vis_n, points, maxpts, viol, capped);
	return viol ? 1 : 0;
}
