/*
 * raidmc_minors.h - C03(a): every square sub-matrix of a generator table is regular.
 *
 *   raidmc minors matrix=cauchy|power|power255ref [colsk=<n1,..,n6>] [plant=1] [brute=1] [scalar=1]
 *                 [threads=<n>] [deadline=<epoch>]
 *   raidmc minor1 is spelled: raidmc minors matrix=.. rows=<list> cols=<list>   (one determinant)
 *
 * matrix=cauchy       raid_gfcauchy      6 x 251  (the table under test)
 * matrix=power        raid_gfvandermonde 3 x 251  (the table under test)
 * matrix=power255ref  the power matrix from its definition, 3 x 255: what the genz
 *                     functions compute for nd up to 255 (C02 ties them to it)
 * colsk: number of leading columns used for k = 1..6 (default: all), the quick-tier bound.
 * plant=1 makes one 2x2 minor vanish in the in-memory copy, brute=1 recounts the same space with
 * plain determinants: together they are the harness self-test run by checks/C03.py.
 *
 * Enumeration: for every row subset R (|R| = k) a depth-first walk over increasing column
 * tuples c1 < c2 < ... carries the block A[R][*] reduced by Gaussian elimination on the
 * chosen columns.  After k-1 columns the last reduced row, at a later column c, is a
 * non-zero multiple of det A[R][c1..c(k-1),c]; it is produced for all later c with one
 * vector multiply-add and tested for zero bytes.  A vanishing pivot on the way is handled
 * with a row exchange (it is itself a singular smaller minor and is found as such under its
 * own row subset).  Every minor is therefore decided exactly, and counted exactly.
 * Arithmetic: nibble tables built from vp_gfmul; the table under test is only the input.
 * Every zero found is confirmed by a plain determinant before it is reported.
 */
#ifndef RAIDMC_MINORS_H
#define RAIDMC_MINORS_H

#include <immintrin.h>

static uint8_t NIB_LO[256][16] __attribute__((aligned(16)));
static uint8_t NIB_HI[256][16] __attribute__((aligned(16)));
static int MN_avx2;

static uint8_t MN_A[6][256] __attribute__((aligned(32))); /* matrix under test */
static int MN_rows, MN_cols;
static const char *MN_name;
static int MN_colsk[7];

typedef struct {
	uint8_t m[6][6][256] __attribute__((aligned(32))); /* [depth][row][col] */
	int k;
	int R[6];
	int cols[6];
	int ncols;
	uint64_t minors;    /* k x k minors decided */
	uint64_t prefixes;  /* (k-1)-column prefixes walked */
	uint64_t singular;
} mn_state_t;

/* plain determinant by elimination, for confirmation and replay */
static uint8_t mn_det(int k, const int *R, const int *C)
{
	uint8_t a[6][6];
	uint8_t det = 1;
	for (int i = 0; i < k; ++i) for (int j = 0; j < k; ++j) a[i][j] = MN_A[R[i]][C[j]];
	for (int c = 0; c < k; ++c) {
		int p = c;
		while (p < k && a[p][c] == 0) ++p;
		if (p == k) return 0;
		if (p != c) for (int j = 0; j < k; ++j) { uint8_t t = a[p][j]; a[p][j] = a[c][j]; a[c][j] = t; }
		det = MUL[det][a[c][c]];
		uint8_t iv = INV[a[c][c]];
		for (int r = c + 1; r < k; ++r) {
			uint8_t f = MUL[a[r][c]][iv];
			if (f) for (int j = c; j < k; ++j) a[r][j] ^= MUL[f][a[c][j]];
		}
	}
	return det;
}

static void mn_report(mn_state_t *s, int ncolsgiven, int lastcol, const char *what)
{
	char key[128], rp[256], rs[64], cs[64];
	int C[6];
	for (int i = 0; i < ncolsgiven; ++i) C[i] = s->cols[i];
	int n = ncolsgiven;
	if (lastcol >= 0) C[n++] = lastcol;
	fmt_set(rs, sizeof(rs), s->R, s->k);
	fmt_set(cs, sizeof(cs), C, n);
	snprintf(key, sizeof(key), "C03/minors/%s/singular-k%d", MN_name, s->k);
	snprintf(rp, sizeof(rp), "cmd=minors matrix=%s rows=%s cols=%s", MN_name, rs, cs);
	if (n == s->k && mn_det(s->k, s->R, C) != 0) {
		say("HARNESS minors walk and plain determinant disagree rows=%s cols=%s\n", rs, cs);
		return;
	}
	fail(key, rp, "%s: rows {%s} columns {%s} of %s", what, rs, cs, MN_name);
}

/* dst[v] = a[v] ^ f * b[v] for 32-byte vectors v0..v1-1 */
__attribute__((target("avx2")))
static inline void mn_rowop_avx2(uint8_t *dst, const uint8_t *a, const uint8_t *b, uint8_t f, int v0, int v1)
{
	const __m256i mask = _mm256_set1_epi8(0x0f);
	const __m256i lo = _mm256_broadcastsi128_si256(_mm_load_si128((const __m128i *)NIB_LO[f]));
	const __m256i hi = _mm256_broadcastsi128_si256(_mm_load_si128((const __m128i *)NIB_HI[f]));
	for (int v = v0; v < v1; ++v) {
		__m256i x = _mm256_load_si256((const __m256i *)(b + 32 * v));
		__m256i l = _mm256_and_si256(x, mask);
		__m256i h = _mm256_and_si256(_mm256_srli_epi16(x, 4), mask);
		__m256i p = _mm256_xor_si256(_mm256_shuffle_epi8(lo, l), _mm256_shuffle_epi8(hi, h));
		_mm256_store_si256((__m256i *)(dst + 32 * v), _mm256_xor_si256(p, _mm256_load_si256((const __m256i *)(a + 32 * v))));
	}
}

static inline void mn_rowop_scalar(uint8_t *dst, const uint8_t *a, const uint8_t *b, uint8_t f, int v0, int v1)
{
	const uint8_t *t = MUL[f];
	for (int c = 32 * v0; c < 32 * v1; ++c) dst[c] = a[c] ^ t[b[c]];
}

/*
 * leaf: last = a ^ f*b on columns (c, ncols); bit set in the result = zero entry = singular minor.
 * returns the number of zero entries, reports each.
 */
__attribute__((target("avx2")))
static inline int mn_leaf_avx2(mn_state_t *s, const uint8_t *a, const uint8_t *b, uint8_t f, int c, int nprefix)
{
	const __m256i mask = _mm256_set1_epi8(0x0f);
	const __m256i zero = _mm256_setzero_si256();
	const __m256i lo = _mm256_broadcastsi128_si256(_mm_load_si128((const __m128i *)NIB_LO[f]));
	const __m256i hi = _mm256_broadcastsi128_si256(_mm_load_si128((const __m128i *)NIB_HI[f]));
	int nz = 0;
	int v0 = (c + 1) >> 5, v1 = (s->ncols + 31) >> 5;
	for (int v = v0; v < v1; ++v) {
		__m256i x = _mm256_load_si256((const __m256i *)(b + 32 * v));
		__m256i l = _mm256_and_si256(x, mask);
		__m256i h = _mm256_and_si256(_mm256_srli_epi16(x, 4), mask);
		__m256i p = _mm256_xor_si256(_mm256_shuffle_epi8(lo, l), _mm256_shuffle_epi8(hi, h));
		p = _mm256_xor_si256(p, _mm256_load_si256((const __m256i *)(a + 32 * v)));
		uint32_t zm = (uint32_t)_mm256_movemask_epi8(_mm256_cmpeq_epi8(p, zero));
		int base = 32 * v;
		if (base <= c) zm &= (c + 1 - base >= 32) ? 0u : ~0u << (c + 1 - base);
		if (base + 32 > s->ncols) zm &= (s->ncols - base >= 32) ? ~0u : ((1u << (s->ncols - base)) - 1);
		while (zm) {
			int bit = __builtin_ctz(zm);
			zm &= zm - 1;
			mn_report(s, nprefix, base + bit, "singular minor");
			++nz;
		}
	}
	return nz;
}

static inline int mn_leaf_scalar(mn_state_t *s, const uint8_t *a, const uint8_t *b, uint8_t f, int c, int nprefix)
{
	const uint8_t *t = MUL[f];
	int nz = 0;
	for (int x = c + 1; x < s->ncols; ++x)
		if ((a[x] ^ t[b[x]]) == 0) { mn_report(s, nprefix, x, "singular minor"); ++nz; }
	return nz;
}

static uint64_t binom(int n, int r)
{
	if (r < 0 || r > n) return 0;
	uint64_t v = 1;
	for (int i = 1; i <= r; ++i) v = v * (uint64_t)(n - r + i) / (uint64_t)i;
	return v;
}

/* t columns chosen (s->cols[0..t-1]); rows t..k-1 of m[t] are the reduced remaining rows, valid for columns >= start */
static void mn_walk(mn_state_t *s, int t, int start, int only)
{
	const int k = s->k;
	if (t == k - 1) {
		/* only for k == 1: the rows themselves */
		for (int c = start; c < s->ncols; ++c) {
			++s->minors;
			if (s->m[t][t][c] == 0) { mn_report(s, t, c, "singular minor"); ++s->singular; }
		}
		++s->prefixes;
		return;
	}
	int cend = s->ncols - (k - t);          /* k-t-1 more columns must follow */
	int cbeg = start;
	if (only >= 0) { cbeg = only; if (only < cend) cend = only; }
	for (int c = cbeg; c <= cend; ++c) {
		uint8_t (*cur)[256] = s->m[t];
		s->cols[t] = c;
		if (cur[t][c] == 0) {
			/* pivot vanished: rows R[0..t] x chosen columns is a singular (t+1)-minor; exchange rows to go on */
			int r = t + 1;
			while (r < k && cur[r][c] == 0) ++r;
			if (r == k) {
				/* the k x (t+1) block has deficient rank: every k-minor through these columns is singular */
				uint64_t n = binom(s->ncols - 1 - c, k - t - 1);
				s->minors += n; s->singular += n;
				s->prefixes += binom(s->ncols - 1 - c, k - t - 2);
				mn_report(s, t + 1, -1, "rank-deficient column block (all minors containing it are singular)");
				continue;
			}
			uint8_t tmp[256];
			memcpy(tmp, cur[t], 256); memcpy(cur[t], cur[r], 256); memcpy(cur[r], tmp, 256);
		}
		uint8_t ipiv = INV[cur[t][c]];
		if (t + 1 == k - 1) {
			/* leaf level: one multiply-add gives every minor that extends this prefix */
			uint8_t f = MUL[cur[k - 1][c]][ipiv];
			int nz = MN_avx2 ? mn_leaf_avx2(s, cur[k - 1], cur[t], f, c, t + 1)
				: mn_leaf_scalar(s, cur[k - 1], cur[t], f, c, t + 1);
			s->minors += (uint64_t)(s->ncols - 1 - c);
			s->singular += nz;
			++s->prefixes;
		} else {
			int v0 = (c + 1) >> 5, v1 = (s->ncols + 31) >> 5;
			for (int r = t + 1; r < k; ++r) {
				uint8_t f = MUL[cur[r][c]][ipiv];
				if (MN_avx2) mn_rowop_avx2(s->m[t + 1][r], cur[r], cur[t], f, v0, v1);
				else mn_rowop_scalar(s->m[t + 1][r], cur[r], cur[t], f, v0, v1);
			}
			mn_walk(s, t + 1, c + 1, -1);
		}
	}
}

typedef struct { int k; int ridx; int R[6]; int c1; uint64_t minors, prefixes, singular; int done; } mn_item_t;
static mn_item_t *MN_items;
static int MN_nitems;

static void mn_run_item(mn_item_t *w, mn_state_t *s)
{
	s->k = w->k;
	s->ncols = MN_colsk[w->k] < MN_cols ? MN_colsk[w->k] : MN_cols;
	s->minors = s->prefixes = s->singular = 0;
	for (int r = 0; r < w->k; ++r) {
		s->R[r] = w->R[r];
		memcpy(s->m[0][r], MN_A[w->R[r]], 256);
	}
	snprintf(t_case_key, sizeof(t_case_key), "C03/minors/%s", MN_name);
	if (s->ncols >= w->k)
		mn_walk(s, 0, 0, w->k == 1 ? -1 : w->c1);
	t_case_key[0] = 0;
	w->minors = s->minors; w->prefixes = s->prefixes; w->singular = s->singular;
	w->done = 1;
}

static void mn_work(int it, void *tls) { mn_run_item(&MN_items[it], tls); }

static void *mn_tls_new(void)
{
	void *p = 0;
	if (posix_memalign(&p, 64, sizeof(mn_state_t))) exit(2);
	memset(p, 0, sizeof(mn_state_t));
	return p;
}

static int mn_item_cmp(const void *a, const void *b)
{
	/* small k first (cheap, so a deadline cuts only the largest k); within k the big subtrees
	 * (small first column) first, which leaves the tiny ones to even out the tail */
	const mn_item_t *x = a, *y = b;
	if (x->k != y->k) return x->k - y->k;
	if (x->c1 != y->c1) return x->c1 - y->c1;
	return x->ridx - y->ridx;
}

static int cmd_minors(void)
{
	const char *mx = arg_str("matrix", "cauchy");
	int threads = (int)arg_int("threads", 16);
	MN_name = mx;
	memset(MN_A, 0, sizeof(MN_A));
	for (int f = 0; f < 256; ++f)
		for (int x = 0; x < 16; ++x) {
			NIB_LO[f][x] = vp_gfmul(f, x);
			NIB_HI[f][x] = vp_gfmul(f, x << 4);
		}
	MN_avx2 = __builtin_cpu_supports("avx2") && !arg_int("scalar", 0);

	long differs = 0;
	if (strcmp(mx, "cauchy") == 0) {
		MN_rows = 6; MN_cols = RAID_DATA_MAX;
		for (int j = 0; j < 6; ++j) for (int i = 0; i < MN_cols; ++i) {
			MN_A[j][i] = raid_gfcauchy[j][i];
			if (MN_A[j][i] != REF_C[j][i]) {
				++differs;
				fail("C03/minors/table-differs/raid_gfcauchy", "cmd=minors matrix=cauchy colsk=0,0,0,0,0,0",
					"raid_gfcauchy[%d][%d] is 0x%02x, the documented matrix has 0x%02x", j, i, MN_A[j][i], REF_C[j][i]);
			}
		}
	} else if (strcmp(mx, "power") == 0) {
		MN_rows = 3; MN_cols = RAID_DATA_MAX;
		for (int j = 0; j < 3; ++j) for (int i = 0; i < MN_cols; ++i) {
			MN_A[j][i] = raid_gfvandermonde[j][i];
			if (MN_A[j][i] != REF_V[j][i]) {
				++differs;
				fail("C03/minors/table-differs/raid_gfvandermonde", "cmd=minors matrix=power colsk=0,0,0,0,0,0",
					"raid_gfvandermonde[%d][%d] is 0x%02x, the documented matrix has 0x%02x", j, i, MN_A[j][i], REF_V[j][i]);
			}
		}
	} else if (strcmp(mx, "power255ref") == 0) {
		MN_rows = 3; MN_cols = NC_POWER;
		for (int j = 0; j < 3; ++j) for (int i = 0; i < MN_cols; ++i) MN_A[j][i] = REF_V[j][i];
	} else {
		fprintf(stderr, "unknown matrix\n");
		return 2;
	}

	/* harness self-test: plant a proportional pair of entries so that one 2x2 minor (and more) vanishes */
	if (arg_int("plant", 0)) {
		int r = MN_rows - 1, c = 17;
		/* make rows {1,r} x columns {c-1,c} singular: A[r][c] = A[r][c-1]*A[1][c]/A[1][c-1] */
		MN_A[r][c] = MUL[MUL[MN_A[r][c - 1]][MN_A[1][c]]][INV[MN_A[1][c - 1]]];
		say("PLANTED row=%d col=%d\n", r, c);
	}

	/* single determinant (replay of one reported minor) */
	if (arg_str("rows", 0)) {
		int R[6], C[6];
		int k = parse_intlist(arg_str("rows", ""), R, 6);
		int kc = parse_intlist(arg_str("cols", ""), C, 6);
		if (kc < k) {
			/* rank-deficient k x kc block: regular iff some kc x kc sub-block is regular */
			int sub[6], any = 0;
			comb_first(kc, sub);
			do {
				int RR[6];
				for (int i = 0; i < kc; ++i) RR[i] = R[sub[i]];
				if (mn_det(kc, RR, C)) any = 1;
			} while (comb_next(kc, k, sub));
			if (!any) fail("C03/minors/replay", "-", "column block has deficient rank");
			say("OK minors single rank_ok=%d fails=%ld\n", any, g_nfail);
			return 0;
		}
		uint8_t d = mn_det(k, R, C);
		if (d == 0) {
			char key[96];
			snprintf(key, sizeof(key), "C03/minors/%s/singular-k%d", mx, k);
			fail(key, "-", "determinant is zero");
		}
		say("OK minors single det=0x%02x fails=%ld\n", d, g_nfail);
		return 0;
	}

	for (int k = 1; k <= 6; ++k) MN_colsk[k] = MN_cols;
	{
		int tmp[6];
		int n = parse_intlist(arg_str("colsk", ""), tmp, 6);
		for (int i = 0; i < n; ++i) MN_colsk[i + 1] = tmp[i] < MN_cols ? tmp[i] : MN_cols;
	}

	/* work items: (k, R, first column) */
	MN_items = calloc(64 * 256, sizeof(mn_item_t));
	MN_nitems = 0;
	for (int k = 1; k <= MN_rows; ++k) {
		int R[6], ridx = 0;
		int nc = MN_colsk[k];
		if (nc < k) continue;
		comb_first(k, R);
		do {
			int nfirst = k == 1 ? 1 : nc - k + 1;
			for (int c1 = 0; c1 < nfirst; ++c1) {
				mn_item_t *w = &MN_items[MN_nitems++];
				w->k = k; w->ridx = ridx; w->c1 = c1;
				memcpy(w->R, R, sizeof(R));
			}
			++ridx;
		} while (comb_next(k, MN_rows, R));
	}
	qsort(MN_items, MN_nitems, sizeof(mn_item_t), mn_item_cmp);
	int skipped = pool_run(threads, MN_nitems, mn_work, mn_tls_new, free);

	/* per (k, R): what was completed */
	uint64_t tot_minors = 0, tot_prefixes = 0, tot_sing = 0;
	for (int k = 1; k <= MN_rows; ++k) {
		uint64_t km = 0, kp = 0, ks = 0;
		int R[6], ridx = 0;
		if (MN_colsk[k] < k) { say("MINORS_K k=%d cols=%d minors=0 prefixes=0 singular=0 complete=1\n", k, MN_colsk[k]); continue; }
		int kcomplete = 1;
		comb_first(k, R);
		do {
			uint64_t m = 0, p = 0, sg = 0;
			int nd = 0, nall = 0, firstmissing = -1;
			for (int it = 0; it < MN_nitems; ++it) {
				mn_item_t *w = &MN_items[it];
				if (w->k != k || w->ridx != ridx) continue;
				++nall;
				if (w->done) { ++nd; m += w->minors; p += w->prefixes; sg += w->singular; }
				else if (firstmissing < 0 || w->c1 < firstmissing) firstmissing = w->c1;
			}
			char rs[32];
			say("MINORS_R k=%d rows=%s firstcols_done=%d/%d first_missing=%d minors=%llu prefixes=%llu singular=%llu\n",
				k, fmt_set(rs, sizeof(rs), R, k), nd, nall, firstmissing,
				(unsigned long long)m, (unsigned long long)p, (unsigned long long)sg);
			if (nd != nall) kcomplete = 0;
			km += m; kp += p; ks += sg;
			++ridx;
		} while (comb_next(k, MN_rows, R));
		say("MINORS_K k=%d cols=%d minors=%llu prefixes=%llu singular=%llu complete=%d\n", k, MN_colsk[k],
			(unsigned long long)km, (unsigned long long)kp, (unsigned long long)ks, kcomplete);
		tot_minors += km; tot_prefixes += kp; tot_sing += ks;
	}
	/* harness self-check: the same space by plain determinants (small colsk only) */
	if (arg_int("brute", 0)) {
		uint64_t bm = 0, bs = 0;
		for (int k = 1; k <= MN_rows; ++k) {
			int R[6], C[6];
			if (MN_colsk[k] < k) continue;
			comb_first(k, R);
			do {
				comb_first(k, C);
				do {
					++bm;
					if (mn_det(k, R, C) == 0) ++bs;
				} while (comb_next(k, MN_colsk[k], C));
			} while (comb_next(k, MN_rows, R));
		}
		say("BRUTE minors=%llu singular=%llu\n", (unsigned long long)bm, (unsigned long long)bs);
	}
	say("%s minors matrix=%s rows=%d cols=%d avx2=%d minors=%llu prefixes=%llu singular=%llu table_differs=%ld skipped_items=%d fails=%ld\n",
		skipped ? "CAPPED" : "OK", mx, MN_rows, MN_cols, MN_avx2,
		(unsigned long long)tot_minors, (unsigned long long)tot_prefixes, (unsigned long long)tot_sing, differs, skipped, g_nfail);
	return 0;
}

#endif
