/*
 * libvp - interposition library for driving an unmodified snapraid binary
 * deterministically (LD_PRELOAD).  Inert unless VP_* variables are set and (if
 * VP_EXE is given) the running executable is VP_EXE.
 *
 *  VP_ROOT=<dir>        only paths below it are traced / counted / faulted
 *  VP_TIME=<sec>        frozen wall clock
 *  VP_URANDOM=<file>    replaces /dev/urandom
 *  VP_STATFS=1          constant statfs block counts;  VP_FSTYPE=<hex> overrides f_type
 *  VP_TRACE=<file>      append one line per traced call; VP_TRACE_READS=1 adds open/read/pread
 *  VP_FAIL=<glob>:<call>:<n>[+]:<errno>[;...]   fail the n-th (0-based) matching call (n+ : from n on)
 *                                               errno -1 on a pread: not a failure but a SHORT transfer (half of the bytes asked for)
 *  VP_ROT=<glob>:<call>:<n>[;...]                after the n-th matching fsync one byte in the middle of that file silently changes on the medium
 *  VP_KILL=<k>:<before|after|torn>              SIGKILL self around the k-th state-changing call
 *  VP_SIGINT=<glob>:<call>:<n>                  raise SIGINT before the n-th matching call
 *  VP_PAUSEAT=<glob>:<call>:<n>:<fifo>          the thread issuing the n-th matching call blocks before it until fifo is written
 *  VP_PAUSE=<k>:<fifo>                          block before state-changing call k until fifo is written
 */
#define _GNU_SOURCE
#include <dlfcn.h>
#include <errno.h>
#include <fcntl.h>
#include <fnmatch.h>
#include <signal.h>
#include <stdarg.h>
#include <stdio.h>
#include <stdlib.h>
#include <string.h>
#include <sys/stat.h>
#include <sys/syscall.h>
#include <sys/time.h>
#include <sys/types.h>
#include <sys/vfs.h>
#include <time.h>
#include <unistd.h>
#include <limits.h>

static int vp_on;
static const char* vp_root;
static size_t vp_root_len;
static int vp_time_on;
static time_t vp_time;
static const char* vp_urandom;
static int vp_statfs_on;
static long vp_fstype = -1;
static int vp_trace_fd = -1;
static int vp_trace_reads;
static long vp_kill_k = -1;
static int vp_kill_mode; /* 0 before 1 after 2 torn */
static int vp_signo = SIGINT; /* VP_SIGNO: the signal VP_SIGINT delivers (the tool handles INT, TERM, HUP, QUIT alike) */
static long vp_pause_k = -1;
static const char* vp_pause_fifo;
static char vp_pauseat_glob[512];
static char vp_pauseat_call[32];
static long vp_pauseat_n = -1;
static long vp_pauseat_count;
static const char* vp_pauseat_fifo;

#define MAXRULE 16
struct rule {
	char glob[512];
	char call[32];
	long n;
	int from;
	int err;
	long count;
};
static struct rule fail_rule[MAXRULE];
static int fail_n;
static struct rule sig_rule[MAXRULE];
static int sig_n;
static struct rule rot_rule[MAXRULE];
static int rot_n;

static long sc_index; /* state changing call counter */
static long seq;

#define REAL(name) ({ static __typeof__(&name) p_; if (!p_) p_ = (__typeof__(&name))dlsym(RTLD_NEXT, #name); p_; })

static void parse_rules(const char* s, struct rule* r, int* n, int with_err)
{
	char* dup = strdup(s);
	char* save = 0;
	char* tok;
	for (tok = strtok_r(dup, ";", &save); tok && *n < MAXRULE; tok = strtok_r(0, ";", &save)) {
		/* parse from the right: errno, n, call, rest is glob (may contain ':') */
		char* parts[4];
		int np = with_err ? 3 : 2;
		int i;
		int bad = 0;
		for (i = 0; i < np; ++i) {
			char* c = strrchr(tok, ':');
			if (!c) { bad = 1; break; }
			*c = 0;
			parts[i] = c + 1;
		}
		if (bad) continue;
		struct rule* q = &r[*n];
		memset(q, 0, sizeof(*q));
		if (with_err) {
			q->err = atoi(parts[0]);
			q->n = atol(parts[1]);
			q->from = strchr(parts[1], '+') != 0;
			snprintf(q->call, sizeof(q->call), "%s", parts[2]);
		} else {
			q->n = atol(parts[0]);
			q->from = strchr(parts[0], '+') != 0;
			snprintf(q->call, sizeof(q->call), "%s", parts[1]);
		}
		snprintf(q->glob, sizeof(q->glob), "%s", tok);
		++*n;
	}
	free(dup);
}

__attribute__((constructor)) static void vp_init(void)
{
	const char* e;
	e = getenv("VP_EXE");
	if (e) {
		char buf[PATH_MAX];
		ssize_t l = readlink("/proc/self/exe", buf, sizeof(buf) - 1);
		if (l < 0) return;
		buf[l] = 0;
		if (strcmp(buf, e) != 0) return;
	}
	vp_on = 1;
	vp_root = getenv("VP_ROOT");
	if (vp_root) vp_root_len = strlen(vp_root);
	e = getenv("VP_TIME");
	if (e) { vp_time_on = 1; vp_time = atoll(e); }
	vp_urandom = getenv("VP_URANDOM");
	vp_statfs_on = getenv("VP_STATFS") != 0;
	e = getenv("VP_FSTYPE");
	if (e) vp_fstype = strtol(e, 0, 16);
	e = getenv("VP_TRACE");
	if (e) vp_trace_fd = REAL(open)(e, O_WRONLY | O_CREAT | O_APPEND | O_CLOEXEC, 0644);
	vp_trace_reads = getenv("VP_TRACE_READS") != 0;
	e = getenv("VP_FAIL");
	if (e) parse_rules(e, fail_rule, &fail_n, 1);
	e = getenv("VP_SIGINT");
	if (e) parse_rules(e, sig_rule, &sig_n, 0);
	e = getenv("VP_SIGNO");
	if (e && atoi(e) > 0) vp_signo = atoi(e);
	e = getenv("VP_ROT");
	if (e) parse_rules(e, rot_rule, &rot_n, 0);
	e = getenv("VP_KILL");
	if (e) {
		vp_kill_k = atol(e);
		const char* c = strchr(e, ':');
		vp_kill_mode = 0;
		if (c) {
			if (strcmp(c + 1, "after") == 0) vp_kill_mode = 1;
			else if (strcmp(c + 1, "torn") == 0) vp_kill_mode = 2;
		}
	}
	e = getenv("VP_PAUSEAT");
	if (e) {
		char* d = strdup(e);
		char* c1 = strrchr(d, ':');
		if (c1) {
			*c1 = 0;
			char* c2 = strrchr(d, ':');
			if (c2) {
				*c2 = 0;
				char* c3 = strrchr(d, ':');
				if (c3) {
					*c3 = 0;
					snprintf(vp_pauseat_glob, sizeof(vp_pauseat_glob), "%s", d);
					snprintf(vp_pauseat_call, sizeof(vp_pauseat_call), "%s", c3 + 1);
					vp_pauseat_n = atol(c2 + 1);
					vp_pauseat_fifo = strdup(c1 + 1);
				}
			}
		}
		free(d);
	}
	e = getenv("VP_PAUSE");
	if (e) {
		vp_pause_k = atol(e);
		const char* c = strchr(e, ':');
		if (c) vp_pause_fifo = strdup(c + 1); else vp_pause_k = -1;
	}
}

static int under_root(const char* p)
{
	if (!vp_root || !p) return 0;
	return strncmp(p, vp_root, vp_root_len) == 0 && (p[vp_root_len] == '/' || p[vp_root_len] == 0);
}

static const char* fdpath(int fd, char* buf, size_t size)
{
	char l[64];
	snprintf(l, sizeof(l), "/proc/self/fd/%d", fd);
	ssize_t n = readlink(l, buf, size - 1);
	if (n < 0) return 0;
	buf[n] = 0;
	return buf;
}

static const char* abspath(const char* p, char* buf, size_t size)
{
	if (!p) return 0;
	if (p[0] == '/') return p;
	char cwd[PATH_MAX];
	if (!getcwd(cwd, sizeof(cwd))) return p;
	snprintf(buf, size, "%s/%s", cwd, p);
	return buf;
}

static void die(void)
{
	syscall(SYS_kill, getpid(), SIGKILL);
	for (;;) pause();
}

static void trace(const char* call, const char* path, const char* path2, long long off, long long len, long long ret, int err, long k)
{
	if (vp_trace_fd < 0) return;
	char line[2 * PATH_MAX + 256];
	char esc[2][PATH_MAX * 2];
	const char* src[2] = { path ? path : "", path2 ? path2 : "" };
	for (int j = 0; j < 2; ++j) {
		char* o = esc[j];
		for (const unsigned char* s = (const unsigned char*)src[j]; *s && o < esc[j] + sizeof(esc[j]) - 5; ++s) {
			if (*s == '\t') { *o++ = '\\'; *o++ = 't'; }
			else if (*s == '\n') { *o++ = '\\'; *o++ = 'n'; }
			else if (*s == '\\') { *o++ = '\\'; *o++ = '\\'; }
			else *o++ = *s;
		}
		*o = 0;
	}
	long s = __atomic_fetch_add(&seq, 1, __ATOMIC_SEQ_CST);
	int n = snprintf(line, sizeof(line), "%ld\t%ld\t%ld\t%s\t%lld\t%d\t%lld\t%lld\t%s\t%s\n",
		s, (long)syscall(SYS_gettid), k, call, ret, err, off, len, esc[0], esc[1]);
	if (n > 0) syscall(SYS_write, vp_trace_fd, line, (size_t)n);
}

/* returns errno to inject (>0) or 0 */
static int check_fail(const char* call, const char* path)
{
	int res = 0;
	for (int i = 0; i < fail_n; ++i) {
		struct rule* r = &fail_rule[i];
		if (strcmp(r->call, call) != 0) continue;
		if (fnmatch(r->glob, path, 0) != 0) continue;
		long c = __atomic_fetch_add(&r->count, 1, __ATOMIC_SEQ_CST);
		/* every rule counts every matching call, also when an earlier rule decides this one */
		if (!res && (c == r->n || (r->from && c > r->n))) res = r->err;
	}
	return res;
}

static void check_sigint(const char* call, const char* path)
{
	for (int i = 0; i < sig_n; ++i) {
		struct rule* r = &sig_rule[i];
		if (strcmp(r->call, call) != 0) continue;
		if (fnmatch(r->glob, path, 0) != 0) continue;
		long c = __atomic_fetch_add(&r->count, 1, __ATOMIC_SEQ_CST);
		if (c == r->n) raise(vp_signo);
	}
}

/* silent corruption of what was just flushed: one byte in the middle of the file flips */
static void check_rot(const char* call, const char* path)
{
	for (int i = 0; i < rot_n; ++i) {
		struct rule* r = &rot_rule[i];
		if (strcmp(r->call, call) != 0) continue;
		if (fnmatch(r->glob, path, 0) != 0) continue;
		long c = __atomic_fetch_add(&r->count, 1, __ATOMIC_SEQ_CST);
		if (c != r->n) continue;
		int f = REAL(open)(path, O_RDWR | O_CLOEXEC);
		if (f < 0) continue;
		struct stat st;
		unsigned char b;
		if (fstat(f, &st) == 0 && st.st_size > 0 && REAL(pread)(f, &b, 1, st.st_size / 2) == 1) {
			b ^= 0x10;
			REAL(pwrite)(f, &b, 1, st.st_size / 2);
			trace("ROT", path, call, st.st_size / 2, 1, 1, 0, -1);
		}
		REAL(close)(f);
	}
}

/* called before a state changing call on a path under root. returns the index k */
static long sc_before(const char* call, const char* path)
{
	long k = __atomic_fetch_add(&sc_index, 1, __ATOMIC_SEQ_CST);
	if (vp_pauseat_n >= 0 && vp_pauseat_fifo && strcmp(vp_pauseat_call, call) == 0 && fnmatch(vp_pauseat_glob, path, 0) == 0) {
		long c = __atomic_fetch_add(&vp_pauseat_count, 1, __ATOMIC_SEQ_CST);
		if (c == vp_pauseat_n) {
			trace("PAUSE", path, call, 0, 0, 0, 0, k);
			int f = REAL(open)(vp_pauseat_fifo, O_RDONLY);
			if (f >= 0) {
				char ch;
				syscall(SYS_read, f, &ch, 1);
				REAL(close)(f);
			}
		}
	}
	if (k == vp_pause_k && vp_pause_fifo) {
		int f = REAL(open)(vp_pause_fifo, O_RDONLY);
		if (f >= 0) {
			char c;
			syscall(SYS_read, f, &c, 1);
			REAL(close)(f);
		}
	}
	if (k == vp_kill_k && vp_kill_mode == 0) {
		trace("KILL-before", path, call, 0, 0, 0, 0, k);
		die();
	}
	return k;
}

static void sc_after(const char* call, const char* path, long k)
{
	if (k == vp_kill_k && vp_kill_mode != 0) {
		trace("KILL-after", path, call, 0, 0, 0, 0, k);
		die();
	}
}

#define TORN(k) ((k) == vp_kill_k && vp_kill_mode == 2)

/****************************************************************************/
/* clock */

time_t time(time_t* t)
{
	if (vp_on && vp_time_on) {
		if (t) *t = vp_time;
		return vp_time;
	}
	return REAL(time)(t);
}

int gettimeofday(struct timeval* tv, void* tz)
{
	if (vp_on && vp_time_on) {
		if (tv) { tv->tv_sec = vp_time; tv->tv_usec = 0; }
		return 0;
	}
	return REAL(gettimeofday)(tv, tz);
}

int clock_gettime(clockid_t id, struct timespec* ts)
{
	if (vp_on && vp_time_on && id == CLOCK_REALTIME) {
		ts->tv_sec = vp_time; ts->tv_nsec = 0;
		return 0;
	}
	return REAL(clock_gettime)(id, ts);
}

/****************************************************************************/
/* statfs */

int statfs(const char* path, struct statfs* st)
{
	int r = REAL(statfs)(path, st);
	if (vp_on && r == 0) {
		if (vp_statfs_on) {
			st->f_bsize = 4096;
			st->f_blocks = 1000000;
			st->f_bfree = 500000;
			st->f_bavail = 500000;
		}
		if (vp_fstype >= 0) st->f_type = vp_fstype;
	}
	return r;
}

int statfs64(const char* path, struct statfs64* st)
{
	int r = REAL(statfs64)(path, st);
	if (vp_on && r == 0) {
		if (vp_statfs_on) {
			st->f_bsize = 4096;
			st->f_blocks = 1000000;
			st->f_bfree = 500000;
			st->f_bavail = 500000;
		}
		if (vp_fstype >= 0) st->f_type = vp_fstype;
	}
	return r;
}

/****************************************************************************/
/* open */

static int do_open(const char* path, int flags, mode_t mode)
{
	if (!vp_on) return REAL(open)(path, flags, mode);
	if (vp_urandom && strcmp(path, "/dev/urandom") == 0)
		return REAL(open)(vp_urandom, O_RDONLY);
	char buf[PATH_MAX];
	const char* ap = abspath(path, buf, sizeof(buf));
	if (!under_root(ap)) return REAL(open)(path, flags, mode);
	int sc = (flags & (O_CREAT | O_TRUNC)) != 0;
	const char* name = sc ? "open-create" : "open";
	int e = check_fail(name, ap);
	long k = -1;
	if (sc) k = sc_before(name, ap);
	if (e) {
		if (sc || vp_trace_reads) trace(name, ap, 0, flags, mode, -1, e, k);
		errno = e;
		return -1;
	}
	int r = REAL(open)(path, flags, mode);
	int se = errno;
	if (sc || vp_trace_reads) trace(name, ap, 0, flags, mode, r, r < 0 ? se : 0, k);
	if (sc) sc_after(name, ap, k);
	errno = se;
	return r;
}

int open(const char* path, int flags, ...)
{
	mode_t mode = 0;
	if (flags & (O_CREAT | O_TMPFILE)) {
		va_list ap;
		va_start(ap, flags);
		mode = va_arg(ap, mode_t);
		va_end(ap);
	}
	return do_open(path, flags, mode);
}

int open64(const char* path, int flags, ...)
{
	mode_t mode = 0;
	if (flags & (O_CREAT | O_TMPFILE)) {
		va_list ap;
		va_start(ap, flags);
		mode = va_arg(ap, mode_t);
		va_end(ap);
	}
	return do_open(path, flags, mode);
}

/****************************************************************************/
/* read side */

ssize_t read(int fd, void* buf, size_t size)
{
	if (!vp_on || (!fail_n && !sig_n && !(vp_trace_reads && vp_trace_fd >= 0))) return REAL(read)(fd, buf, size);
	char pb[PATH_MAX];
	const char* p = fdpath(fd, pb, sizeof(pb));
	if (!under_root(p)) return REAL(read)(fd, buf, size);
	check_sigint("read", p);
	int e = check_fail("read", p);
	if (e) {
		trace("read", p, 0, -1, size, -1, e, -1);
		errno = e;
		return -1;
	}
	ssize_t r = REAL(read)(fd, buf, size);
	int se = errno;
	if (vp_trace_reads) trace("read", p, 0, -1, size, r, r < 0 ? se : 0, -1);
	errno = se;
	return r;
}

static ssize_t do_pread(int fd, void* buf, size_t size, off_t off)
{
	if (!vp_on || (!fail_n && !sig_n && !(vp_trace_reads && vp_trace_fd >= 0))) return REAL(pread)(fd, buf, size, off);
	char pb[PATH_MAX];
	const char* p = fdpath(fd, pb, sizeof(pb));
	if (!under_root(p)) return REAL(pread)(fd, buf, size, off);
	check_sigint("pread", p);
	int e = check_fail("pread", p);
	if (e == -1) {
		/* a short read: a legitimate answer of the OS, the caller has to go on from where it stopped */
		size_t part = size >= 2 ? size / 2 : size;
		ssize_t r = REAL(pread)(fd, buf, part, off);
		int se = errno;
		trace("pread", p, "short", off, part, r, -1, -1);
		errno = se;
		return r;
	}
	if (e) {
		trace("pread", p, 0, off, size, -1, e, -1);
		errno = e;
		return -1;
	}
	ssize_t r = REAL(pread)(fd, buf, size, off);
	int se = errno;
	if (vp_trace_reads) trace("pread", p, 0, off, size, r, r < 0 ? se : 0, -1);
	errno = se;
	return r;
}

ssize_t pread(int fd, void* buf, size_t size, off_t off) { return do_pread(fd, buf, size, off); }
ssize_t pread64(int fd, void* buf, size_t size, off64_t off) { return do_pread(fd, buf, size, off); }

/****************************************************************************/
/* write side */

ssize_t write(int fd, const void* buf, size_t size)
{
	if (!vp_on || !vp_root) return REAL(write)(fd, buf, size);
	char pb[PATH_MAX];
	const char* p = fdpath(fd, pb, sizeof(pb));
	if (!under_root(p)) return REAL(write)(fd, buf, size);
	check_sigint("write", p);
	int e = check_fail("write", p);
	long k = sc_before("write", p);
	if (e) {
		trace("write", p, 0, -1, size, -1, e, k);
		errno = e;
		return -1;
	}
	if (TORN(k)) {
		ssize_t r = REAL(write)(fd, buf, size / 2);
		trace("KILL-torn", p, "write", -1, size / 2, r, 0, k);
		die();
	}
	ssize_t r = REAL(write)(fd, buf, size);
	int se = errno;
	trace("write", p, 0, -1, size, r, r < 0 ? se : 0, k);
	sc_after("write", p, k);
	errno = se;
	return r;
}

static ssize_t do_pwrite(int fd, const void* buf, size_t size, off_t off)
{
	if (!vp_on || !vp_root) return REAL(pwrite)(fd, buf, size, off);
	char pb[PATH_MAX];
	const char* p = fdpath(fd, pb, sizeof(pb));
	if (!under_root(p)) return REAL(pwrite)(fd, buf, size, off);
	check_sigint("pwrite", p);
	int e = check_fail("pwrite", p);
	long k = sc_before("pwrite", p);
	if (e) {
		trace("pwrite", p, 0, off, size, -1, e, k);
		errno = e;
		return -1;
	}
	if (TORN(k)) {
		ssize_t r = REAL(pwrite)(fd, buf, size / 2, off);
		trace("KILL-torn", p, "pwrite", off, size / 2, r, 0, k);
		die();
	}
	ssize_t r = REAL(pwrite)(fd, buf, size, off);
	int se = errno;
	trace("pwrite", p, 0, off, size, r, r < 0 ? se : 0, k);
	sc_after("pwrite", p, k);
	errno = se;
	return r;
}

ssize_t pwrite(int fd, const void* buf, size_t size, off_t off) { return do_pwrite(fd, buf, size, off); }
ssize_t pwrite64(int fd, const void* buf, size_t size, off64_t off) { return do_pwrite(fd, buf, size, off); }

#define FD_CALL(NAME, CALLEXPR, OFF, LEN) \
	if (!vp_on || !vp_root) return CALLEXPR; \
	char pb[PATH_MAX]; \
	const char* p = fdpath(fd, pb, sizeof(pb)); \
	if (!under_root(p)) return CALLEXPR; \
	int e = check_fail(NAME, p); \
	long k = sc_before(NAME, p); \
	if (e) { trace(NAME, p, 0, OFF, LEN, -1, e, k); errno = e; return -1; } \
	int r = CALLEXPR; \
	int se = errno; \
	trace(NAME, p, 0, OFF, LEN, r, r != 0 ? se : 0, k); \
	sc_after(NAME, p, k); \
	if (r == 0 && rot_n) check_rot(NAME, p); \
	errno = se; \
	return r;

int ftruncate(int fd, off_t len) { FD_CALL("ftruncate", REAL(ftruncate)(fd, len), len, 0) }
int ftruncate64(int fd, off64_t len) { FD_CALL("ftruncate", REAL(ftruncate64)(fd, len), len, 0) }
int fsync(int fd) { FD_CALL("fsync", REAL(fsync)(fd), 0, 0) }
int fdatasync(int fd) { FD_CALL("fsync", REAL(fdatasync)(fd), 0, 0) }

int fallocate(int fd, int mode, off_t off, off_t len)
{
	if (!vp_on || !vp_root) return REAL(fallocate)(fd, mode, off, len);
	char pb[PATH_MAX];
	const char* p = fdpath(fd, pb, sizeof(pb));
	if (!under_root(p)) return REAL(fallocate)(fd, mode, off, len);
	int e = check_fail("fallocate", p);
	long k = sc_before("fallocate", p);
	if (e) { trace("fallocate", p, 0, off, len, -1, e, k); errno = e; return -1; }
	int r = REAL(fallocate)(fd, mode, off, len);
	int se = errno;
	trace("fallocate", p, 0, off, len, r, r != 0 ? se : 0, k);
	sc_after("fallocate", p, k);
	errno = se;
	return r;
}

int fallocate64(int fd, int mode, off64_t off, off64_t len) { return fallocate(fd, mode, off, len); }

int posix_fallocate(int fd, off_t off, off_t len)
{
	if (!vp_on || !vp_root) return REAL(posix_fallocate)(fd, off, len);
	char pb[PATH_MAX];
	const char* p = fdpath(fd, pb, sizeof(pb));
	if (!under_root(p)) return REAL(posix_fallocate)(fd, off, len);
	int e = check_fail("fallocate", p);
	long k = sc_before("fallocate", p);
	if (e) { trace("fallocate", p, 0, off, len, e, e, k); return e; }
	int r = REAL(posix_fallocate)(fd, off, len);
	trace("fallocate", p, 0, off, len, r, r, k);
	sc_after("fallocate", p, k);
	return r;
}

int futimens(int fd, const struct timespec tv[2])
{
	if (!vp_on || !vp_root) return REAL(futimens)(fd, tv);
	char pb[PATH_MAX];
	const char* p = fdpath(fd, pb, sizeof(pb));
	if (!under_root(p)) return REAL(futimens)(fd, tv);
	int e = check_fail("utime", p);
	long k = sc_before("utime", p);
	if (e) { trace("utime", p, 0, 0, 0, -1, e, k); errno = e; return -1; }
	int r = REAL(futimens)(fd, tv);
	int se = errno;
	trace("utime", p, 0, tv ? tv[1].tv_sec : 0, tv ? tv[1].tv_nsec : 0, r, r != 0 ? se : 0, k);
	sc_after("utime", p, k);
	errno = se;
	return r;
}

int utimensat(int dirfd, const char* path, const struct timespec tv[2], int flags)
{
	if (!vp_on || !vp_root || !path) return REAL(utimensat)(dirfd, path, tv, flags);
	char buf[PATH_MAX];
	const char* p = abspath(path, buf, sizeof(buf));
	if (!under_root(p)) return REAL(utimensat)(dirfd, path, tv, flags);
	/* "lutime" = the time-stamp of a symbolic link itself (a file system may not support it) */
	int e = check_fail((flags & AT_SYMLINK_NOFOLLOW) ? "lutime" : "utime", p);
	long k = sc_before("utime", p);
	if (e) { trace("utime", p, 0, 0, 0, -1, e, k); errno = e; return -1; }
	int r = REAL(utimensat)(dirfd, path, tv, flags);
	int se = errno;
	trace("utime", p, 0, tv ? tv[1].tv_sec : 0, tv ? tv[1].tv_nsec : 0, r, r != 0 ? se : 0, k);
	sc_after("utime", p, k);
	errno = se;
	return r;
}

#define PATH_CALL(NAME, P1, P2, CALLEXPR) \
	if (!vp_on || !vp_root) return CALLEXPR; \
	char b1[PATH_MAX], b2[PATH_MAX]; \
	const char* a1 = abspath(P1, b1, sizeof(b1)); \
	const char* a2 = abspath(P2, b2, sizeof(b2)); \
	if (!under_root(a1) && !under_root(a2)) return CALLEXPR; \
	int e = check_fail(NAME, a1); \
	long k = sc_before(NAME, a1); \
	if (e) { trace(NAME, a1, a2, 0, 0, -1, e, k); errno = e; return -1; } \
	int r = CALLEXPR; \
	int se = errno; \
	trace(NAME, a1, a2, 0, 0, r, r != 0 ? se : 0, k); \
	sc_after(NAME, a1, k); \
	errno = se; \
	return r;

int rename(const char* a, const char* b) { PATH_CALL("rename", a, b, REAL(rename)(a, b)) }
int unlink(const char* a) { PATH_CALL("unlink", a, (const char*)0, REAL(unlink)(a)) }
int remove(const char* a) { PATH_CALL("unlink", a, (const char*)0, REAL(remove)(a)) }
int rmdir(const char* a) { PATH_CALL("rmdir", a, (const char*)0, REAL(rmdir)(a)) }
int mkdir(const char* a, mode_t m) { PATH_CALL("mkdir", a, (const char*)0, REAL(mkdir)(a, m)) }
int link(const char* a, const char* b) { PATH_CALL("link", b, a, REAL(link)(a, b)) }
int symlink(const char* a, const char* b) { PATH_CALL("symlink", b, a, REAL(symlink)(a, b)) }
