/*
 * raidmc_gen.h - C02: tables and parity generators against the algebraic definition.
 *
 *   raidmc tables [table=<name>]
 *   raidmc gen nds=<list> sizes=<list> [fns=<list>] [families=basis,dense,prng]
 *              [disk=<i>] [seed=<n>] [threads=<n>] [deadline=<epoch>]
 *
 * The list of generator functions comes from the header generated out of raid/internal.h
 * (RAIDMC_GEN_LIST), plus the public dispatcher raid_gen() in both modes.
 */
#ifndef RAIDMC_GEN_H
#define RAIDMC_GEN_H

/****************************************************************************/
/* tables */

/* compare one entry; returns 1 (entries compared), bumps *bad on a mismatch */
static long tab_cmp(const char *name, const char *idxtxt, unsigned got, unsigned want, long *bad)
{
	if (got != want) {
		char key[96], rp[96];
		snprintf(key, sizeof(key), "C02/tables/%s", name);
		snprintf(rp, sizeof(rp), "cmd=tables table=%s", name);
		fail(key, rp, "%s%s is 0x%02x, definition gives 0x%02x", name, idxtxt, got, want);
		++*bad;
	}
	return 1;
}

static int cmd_tables(void)
{
	const char *only = arg_str("table", 0);
	char ix[64];
	long total = 0;

#define TABLE_BEGIN(nm) if (in_list(only, nm)) { const char *tn = nm; long n = 0, bad = 0, pad = 0;
#define TABLE_END say("TABLE name=%s entries=%ld padding_skipped=%ld bad=%ld\n", tn, n, pad, bad); total += n; }

	TABLE_BEGIN("raid_gfmul")
	for (int a = 0; a < 256; ++a)
		for (int b = 0; b < 256; ++b) {
			snprintf(ix, sizeof(ix), "[%d][%d]", a, b);
			n += tab_cmp(tn, ix, raid_gfmul[a][b], vp_gfmul(a, b), &bad);
		}
	TABLE_END

	TABLE_BEGIN("raid_gfexp")
	for (int a = 0; a < 256; ++a) {
		snprintf(ix, sizeof(ix), "[%d]", a);
		n += tab_cmp(tn, ix, raid_gfexp[a], vp_gfpow(2, a), &bad);
	}
	TABLE_END

	TABLE_BEGIN("raid_gfinv")
	/* entry 0 is documented as not significant (inv(0) is a BUG_ON) */
	pad = 1;
	for (int a = 1; a < 256; ++a) {
		snprintf(ix, sizeof(ix), "[%d]", a);
		n += tab_cmp(tn, ix, raid_gfinv[a], vp_gfinv(a), &bad);
		/* and from the definition of an inverse, independent of vp_gfinv */
		if (vp_gfmul(a, raid_gfinv[a]) != 1) {
			fail("C02/tables/raid_gfinv", "cmd=tables table=raid_gfinv", "raid_gfinv[%d]=0x%02x: a*inv(a) != 1", a, raid_gfinv[a]);
			++bad;
		}
	}
	TABLE_END

	TABLE_BEGIN("raid_gfvandermonde")
	/* 251 documented columns; columns 251..255 are array padding never indexed (nd <= RAID_DATA_MAX) */
	pad = 3 * (256 - RAID_DATA_MAX);
	for (int j = 0; j < 3; ++j)
		for (int i = 0; i < RAID_DATA_MAX; ++i) {
			snprintf(ix, sizeof(ix), "[%d][%d]", j, i);
			n += tab_cmp(tn, ix, raid_gfvandermonde[j][i], REF_V[j][i], &bad);
		}
	TABLE_END

	TABLE_BEGIN("raid_gfcauchy")
	pad = 6 * (256 - RAID_DATA_MAX);
	for (int j = 0; j < 6; ++j)
		for (int i = 0; i < RAID_DATA_MAX; ++i) {
			snprintf(ix, sizeof(ix), "[%d][%d]", j, i);
			n += tab_cmp(tn, ix, raid_gfcauchy[j][i], REF_C[j][i], &bad);
		}
	TABLE_END

#ifdef CONFIG_X86
	TABLE_BEGIN("raid_gfcauchypshufb")
	/* [disk][parity-2][0][k] = A[parity][disk]*k ; [..][1][k] = A[parity][disk]*(k<<4) */
	for (int i = 0; i < 251; ++i)
		for (int j = 0; j < 4; ++j)
			for (int h = 0; h < 2; ++h)
				for (int k = 0; k < 16; ++k) {
					snprintf(ix, sizeof(ix), "[%d][%d][%d][%d]", i, j, h, k);
					n += tab_cmp(tn, ix, raid_gfcauchypshufb[i][j][h][k],
						vp_gfmul(REF_C[j + 2][i], h ? k << 4 : k), &bad);
				}
	TABLE_END

	TABLE_BEGIN("raid_gfmulpshufb")
	for (int c = 0; c < 256; ++c)
		for (int h = 0; h < 2; ++h)
			for (int k = 0; k < 16; ++k) {
				snprintf(ix, sizeof(ix), "[%d][%d][%d]", c, h, k);
				n += tab_cmp(tn, ix, raid_gfmulpshufb[c][h][k], vp_gfmul(c, h ? k << 4 : k), &bad);
			}
	TABLE_END
#endif
	say("OK tables entries=%ld fails=%ld\n", total, g_nfail);
	return 0;
}

/****************************************************************************/
/* generator registry */

typedef void gen_f(int nd, size_t size, void **v);

typedef struct {
	const char *name;
	gen_f *fn;       /* NULL for the dispatcher */
	int np;
	int z;           /* expected matrix: 0 cauchy, 1 power */
	int mode;        /* -1 direct function (runs in cauchy mode), else raid_mode() to select */
	int runnable;
	const char *why; /* when not runnable */
	int ndmax;
	int weight;      /* relative cost per byte, for scheduling only */
	long cases;
} gen_t;

static gen_t GENS[160];
static int NGENS;

#define RAIDMC_ADD_GEN(f, n, isz, variant, cpuok) do { \
	gen_t *g = &GENS[NGENS++]; \
	g->name = #f; g->fn = (gen_f *)(f); g->np = (n); g->z = (isz); g->mode = -1; \
	g->runnable = 1; g->why = ""; \
	if (!g->fn) { g->runnable = 0; g->why = "not-compiled"; } \
	else if (!(cpuok)) { g->runnable = 0; g->why = "cpu-lacks-" variant; } \
	g->ndmax = (isz) ? NC_POWER : NC_CAUCHY; \
	g->weight = strstr(variant, "int8") ? 24 : strstr(variant, "int") ? 3 : 1; \
} while (0);

static void gen_registry(void)
{
	static char names[9][32];
	RAIDMC_GEN_LIST(RAIDMC_ADD_GEN)
	/* the public dispatcher, every parity count in both modes */
	for (int mode = 0; mode < 2; ++mode)
		for (int np = 1; np <= (mode ? 3 : 6); ++np) {
			gen_t *g = &GENS[NGENS];
			char *nm = names[mode ? 6 + np - 1 : np - 1];
			snprintf(nm, 32, "raid_gen.%s.np%d", mode ? "z" : "c", np);
			g->name = nm; g->fn = 0; g->np = np; g->z = mode; g->mode = mode;
			g->runnable = 1; g->why = ""; g->ndmax = mode ? NC_POWER : NC_CAUCHY; g->weight = 1;
			++NGENS;
		}
}

/****************************************************************************/
/* expected parity of the basis block, per matrix/row/column (read-only, shared) */

static uint8_t *BREF[2][6][256];

static void bref_setup(void)
{
	static uint8_t basis[BASIS_SIZE];
	fill_basis(basis, BASIS_SIZE);
	for (int m = 0; m < 2; ++m) {
		int rows = m ? 3 : 6, cols = m ? NC_POWER : NC_CAUCHY;
		uint8_t *blk = malloc((size_t)rows * cols * BASIS_SIZE);
		for (int i = 0; i < cols; ++i) {
			uint8_t *par[6];
			const uint8_t *d[1] = { basis };
			int col[1] = { i };
			for (int j = 0; j < rows; ++j) par[j] = BREF[m][j][i] = blk + ((size_t)j * cols + i) * BASIS_SIZE;
			/* all other disks are zero, they contribute nothing to the sum */
			vp_parity(m, 1, col, d, rows, par, BASIS_SIZE);
		}
	}
}

/****************************************************************************/
/* sweep parameters */

static int G_nds[300], G_nnds;
static int G_sizes[32], G_nsizes;
static const char *G_fns, *G_families;
static int G_disk = -1;
static uint64_t G_seed;
static int G_phase_mode;

static uint8_t ZERO16K[BASIS_SIZE] __attribute__((aligned(64)));
static uint8_t BASIS16K[BASIS_SIZE] __attribute__((aligned(64)));

typedef struct {
	stripe_t st;
	uint8_t *orig;       /* copy of the dense data, 255 x maxsize */
	uint8_t *ref[2][6];  /* reference parity of the dense data */
	size_t maxsize;
} gen_tls_t;

static void *gen_tls_new(void)
{
	gen_tls_t *t = calloc(1, sizeof(*t));
	t->maxsize = BASIS_SIZE;
	stripe_alloc(&t->st, NC_POWER + 6, t->maxsize);
	t->orig = malloc((size_t)NC_POWER * t->maxsize);
	for (int m = 0; m < 2; ++m)
		for (int j = 0; j < 6; ++j)
			t->ref[m][j] = malloc(t->maxsize);
	return t;
}

static void gen_tls_free(void *p)
{
	gen_tls_t *t = p;
	stripe_free(&t->st);
	free(t->orig);
	for (int m = 0; m < 2; ++m) for (int j = 0; j < 6; ++j) free(t->ref[m][j]);
	free(t);
}

/*
 * One evaluation: parity buffers are pre-painted with sentinels, the function runs, then
 *   parity j < np   == expect[j]
 *   parity j >= np  still the sentinel (nothing written beyond np parities)
 *   canaries intact (nothing written outside any buffer)
 * (the caller checks that data blocks are unchanged, it knows their expected content)
 * returns 0 if all hold.
 */
static int gen_eval(gen_t *g, stripe_t *st, int nd, size_t size, uint8_t *const *expect,
	const char *family, int disk)
{
	char key[160], rp[320];
	int bad = 0;
	snprintf(rp, sizeof(rp), "cmd=gen fns=%s nds=%d sizes=%zu families=%s disk=%d seed=%llu",
		g->name, nd, size, family, disk, (unsigned long long)G_seed);
	snprintf(t_case_key, sizeof(t_case_key), "C02/gen/%s", g->name);
	snprintf(t_case_replay, sizeof(t_case_replay), "%s", rp);

	for (int j = 0; j < 6; ++j) paint_sentinel(st->v[nd + j], nd + j, size);

	if (g->fn) g->fn(nd, size, st->v);
	else raid_gen(nd, g->np, size, st->v);

	t_case_key[0] = 0;

	for (int j = 0; j < g->np; ++j) {
		long p = first_diff(st->v[nd + j], expect[j], size);
		if (p >= 0) {
			snprintf(key, sizeof(key), "C02/gen/%s/parity%d", g->name, j);
			fail(key, rp, "nd=%d size=%zu family=%s disk=%d: parity %d byte %ld is 0x%02x, definition gives 0x%02x",
				nd, size, family, disk, j, p, ((uint8_t *)st->v[nd + j])[p], expect[j][p]);
			bad = 1;
		}
	}
	for (int j = g->np; j < 6; ++j)
		if (!is_sentinel(st->v[nd + j], nd + j, size)) {
			snprintf(key, sizeof(key), "C02/gen/%s/wrote-beyond-np", g->name);
			fail(key, rp, "nd=%d size=%zu family=%s: buffer of parity %d (>= np=%d) was written", nd, size, family, j, g->np);
			bad = 1;
		}
	int c = stripe_canary_bad(st);
	if (c >= 0) {
		snprintf(key, sizeof(key), "C02/gen/%s/canary", g->name);
		fail(key, rp, "nd=%d size=%zu family=%s: canary zone %d damaged (write outside a buffer)", nd, size, family, c);
		bad = 1;
	}
	__sync_fetch_and_add(&g->cases, 1);
	return bad;
}

static void gen_data_modified(gen_t *g, int nd, size_t size, const char *family, int disk, int blk, long p)
{
	char key[160], rp[320];
	snprintf(rp, sizeof(rp), "cmd=gen fns=%s nds=%d sizes=%zu families=%s disk=%d seed=%llu",
		g->name, nd, size, family, disk, (unsigned long long)G_seed);
	snprintf(key, sizeof(key), "C02/gen/%s/data-modified", g->name);
	fail(key, rp, "nd=%d size=%zu family=%s disk=%d: data block %d modified at byte %ld", nd, size, family, disk, blk, p);
}

/* basis family of one (function, nd): every disk i in turn holds the basis block, all others zero */
static long gen_basis_item(gen_t *g, int nd, gen_tls_t *t)
{
	stripe_t *st = &t->st;
	const size_t size = BASIS_SIZE;
	long n = 0;
	stripe_shape(st, nd + 6, size);
	for (int k = 0; k < nd; ++k) memset(st->v[k], 0, size);
	for (int i = 0; i < nd; ++i) {
		if (G_disk >= 0 && i != G_disk) continue;
		uint8_t *expect[6];
		for (int j = 0; j < g->np; ++j) expect[j] = BREF[g->z][j][i];
		memcpy(st->v[i], BASIS16K, size);
		gen_eval(g, st, nd, size, expect, "basis", i);
		for (int k = 0; k < nd; ++k) {
			long p = first_diff(st->v[k], k == i ? BASIS16K : ZERO16K, size);
			if (p >= 0) {
				gen_data_modified(g, nd, size, "basis", i, k, p);
				memcpy(st->v[k], k == i ? BASIS16K : ZERO16K, size);
			}
		}
		memset(st->v[i], 0, size);
		++n;
	}
	return n;
}

/* dense + prng families of one nd: the reference is computed once and shared by all functions */
static long gen_dense_item(int nd, gen_tls_t *t)
{
	stripe_t *st = &t->st;
	long n = 0;
	static const char *fam[2] = { "dense", "prng" };
	for (int si = 0; si < G_nsizes; ++si) {
		size_t size = G_sizes[si];
		for (int f = 0; f < 2; ++f) {
			if (!in_list(G_families, fam[f])) continue;
			int have_ref = 0;
			for (int gi = 0; gi < NGENS; ++gi) {
				gen_t *g = &GENS[gi];
				if (!g->runnable || nd > g->ndmax || !in_list(G_fns, g->name)) continue;
				if ((g->mode < 0 ? 0 : g->mode) != G_phase_mode) continue;
				if (!have_ref) {
					/* data + reference, once per (nd, size, family) */
					const uint8_t *d[256];
					int col[256];
					stripe_shape(st, nd + 6, size);
					for (int k = 0; k < nd; ++k) {
						uint8_t *o = t->orig + (size_t)k * t->maxsize;
						if (f == 0) fill_dense(o, k, size);
						else fill_prng(o, G_seed, nd, k, size);
						memcpy(st->v[k], o, size);
						d[k] = o; col[k] = k;
					}
					if (nd <= NC_CAUCHY) vp_parity(0, nd, col, d, 6, t->ref[0], size);
					vp_parity(1, nd, col, d, 3, t->ref[1], size);
					have_ref = 1;
				}
				gen_eval(g, st, nd, size, t->ref[g->z], fam[f], -1);
				for (int k = 0; k < nd; ++k) {
					const uint8_t *o = t->orig + (size_t)k * t->maxsize;
					long p = first_diff(st->v[k], o, size);
					if (p >= 0) {
						gen_data_modified(g, nd, size, fam[f], -1, k, p);
						memcpy(st->v[k], o, size);
					}
				}
				++n;
			}
		}
	}
	return n;
}

typedef struct { int kind; int gi; int nd; double cost; long cases; int done; } gen_item_t;
static gen_item_t *G_items;
static int G_nitems;

static int gen_item_cmp(const void *a, const void *b)
{
	const gen_item_t *x = a, *y = b;
	if (x->cost != y->cost) return x->cost < y->cost ? 1 : -1;
	if (x->kind != y->kind) return x->kind - y->kind;
	if (x->nd != y->nd) return y->nd - x->nd;
	return x->gi - y->gi;
}

static void gen_work(int it, void *tls)
{
	gen_item_t *w = &G_items[it];
	if (w->kind == 0) w->cases = gen_basis_item(&GENS[w->gi], w->nd, tls);
	else w->cases = gen_dense_item(w->nd, tls);
	w->done = 1;
}

static int cmd_gen(void)
{
	int threads = (int)arg_int("threads", 16);
	G_nnds = parse_intlist(arg_str("nds", "1-251"), G_nds, 300);
	G_nsizes = parse_intlist(arg_str("sizes", "64,256,4096"), G_sizes, 32);
	G_fns = arg_str("fns", 0);
	G_families = arg_str("families", 0);
	G_disk = (int)arg_int("disk", -1);
	G_seed = (uint64_t)arg_int("seed", 0);
	for (int i = 0; i < G_nsizes; ++i)
		if (G_sizes[i] % 64 || G_sizes[i] <= 0 || G_sizes[i] > BASIS_SIZE) { fprintf(stderr, "bad size\n"); return 2; }

	raid_init();
	gen_registry();
	bref_setup();
	fill_basis(BASIS16K, BASIS_SIZE);

	for (int gi = 0; gi < NGENS; ++gi)
		say("FN name=%s np=%d matrix=%s runnable=%d why=%s ndmax=%d\n", GENS[gi].name, GENS[gi].np,
			GENS[gi].z ? "power" : "cauchy", GENS[gi].runnable, GENS[gi].why[0] ? GENS[gi].why : "-", GENS[gi].ndmax);

	long total = 0;
	int skipped_total = 0;
	/* phase 0: cauchy mode (all direct functions + dispatcher), phase 1: vandermonde mode (dispatcher) */
	for (G_phase_mode = 0; G_phase_mode < 2; ++G_phase_mode) {
		raid_mode(G_phase_mode ? RAID_MODE_VANDERMONDE : RAID_MODE_CAUCHY);
		G_items = calloc((size_t)(NGENS + 1) * (G_nnds + 1), sizeof(gen_item_t));
		G_nitems = 0;
		for (int ni = 0; ni < G_nnds; ++ni) {
			int nd = G_nds[ni], any = 0;
			if (nd < 1 || nd > NC_POWER) continue;
			for (int gi = 0; gi < NGENS; ++gi) {
				gen_t *g = &GENS[gi];
				if (!g->runnable || nd > g->ndmax || !in_list(G_fns, g->name)) continue;
				if ((g->mode < 0 ? 0 : g->mode) != G_phase_mode) continue;
				any = 1;
				if (in_list(G_families, "basis")) {
					gen_item_t *w = &G_items[G_nitems++];
					w->kind = 0; w->gi = gi; w->nd = nd;
					w->cost = (double)nd * nd * BASIS_SIZE * (g->weight + 1);
				}
			}
			if (any && (in_list(G_families, "dense") || in_list(G_families, "prng"))) {
				gen_item_t *w = &G_items[G_nitems++];
				double bytes = 0;
				for (int si = 0; si < G_nsizes; ++si) bytes += G_sizes[si];
				w->kind = 1; w->gi = -1; w->nd = nd;
				w->cost = (double)nd * bytes * 2 * 120;
			}
		}
		qsort(G_items, G_nitems, sizeof(gen_item_t), gen_item_cmp);
		skipped_total += pool_run(threads, G_nitems, gen_work, gen_tls_new, gen_tls_free);
		for (int it = 0; it < G_nitems; ++it) {
			gen_item_t *w = &G_items[it];
			if (!w->done) {
				say("SKIPPED kind=%s fn=%s nd=%d mode=%d\n", w->kind ? "dense" : "basis", w->kind ? "*" : GENS[w->gi].name, w->nd, G_phase_mode);
				continue;
			}
			total += w->cases;
			say("ITEM kind=%s fn=%s nd=%d mode=%d cases=%ld\n", w->kind ? "dense" : "basis", w->kind ? "*" : GENS[w->gi].name, w->nd, G_phase_mode, w->cases);
		}
		free(G_items);
	}
	raid_mode(RAID_MODE_CAUCHY);
	for (int gi = 0; gi < NGENS; ++gi)
		say("FNCASES name=%s cases=%ld\n", GENS[gi].name, GENS[gi].cases);
	say("%s gen cases=%ld skipped_items=%d fails=%ld\n", skipped_total ? "CAPPED" : "OK", total, skipped_total, g_nfail);
	return 0;
}

#endif
