/*
 * raidmc_chk.h - C03(c): raid_check() / raid_scan() (raid/check.c).
 *
 *   raidmc chk mode=0|1 nds=<list> sizes=<list> [threads=<n>] [deadline=<epoch>] [seed=<n>]
 *   single case (replay): add  np=<n> corrupt=<set T> variant=xor|byte [cand=<set C>]
 *                         (without cand= the raid_scan part of T is replayed)
 *
 * Space: every nd in nds, np 2..6 (mode 1: 2..3), both corruption variants, every set T of
 * really corrupted blocks with |T| < np over data U parity, and for each T every candidate
 * set C with |C| < np.
 *   raid_check(C) == 0   when C contains T
 *   raid_check(C) == -1  when exactly one corrupted block is left unlisted (|T \ C| == 1)
 *   (other pairs are executed too - nothing may be modified - but their result is not constrained)
 *   raid_scan(): 0 <= r <= |T|, the returned set is accepted by raid_check, and equals T
 *   whenever 2|T| <= np (unique decoding radius).
 * Neither function may modify any block.
 * Variants: xor - every byte of a corrupted block differs from the original;
 *           byte - exactly one byte (position depends on the block) differs.
 */
#ifndef RAIDMC_CHK_H
#define RAIDMC_CHK_H

#define CHK_STRIPES 8

static int C_mode, C_npmax;
static uint64_t C_seed;

typedef struct {
	stripe_t st;
	uint8_t *orig;   /* consistent stripe: nd data + 6 parity */
	uint8_t *cur;    /* stripe with T corrupted (what the functions see) */
	int nd, np; size_t size; int variant;
	long checks, accept_exp, reject_exp, unconstrained, scans, scans_exact;
} chk_tls_t;

static void *chk_tls_new(void)
{
	chk_tls_t *t = calloc(1, sizeof(*t));
	stripe_alloc(&t->st, 16, DEC_MAXSIZE);
	t->orig = malloc(16 * DEC_MAXSIZE);
	t->cur = malloc(16 * DEC_MAXSIZE);
	return t;
}

static void chk_tls_free(void *p)
{
	chk_tls_t *t = p;
	stripe_free(&t->st);
	free(t->orig); free(t->cur);
	free(t);
}

static const char *chk_vname(int v) { return v ? "byte" : "xor"; }

static void chk_build(chk_tls_t *t, int nd, int np, size_t size, int variant)
{
	const uint8_t *d[16];
	uint8_t *par[6];
	int col[16];
	t->nd = nd; t->np = np; t->size = size; t->variant = variant;
	for (int k = 0; k < nd; ++k) {
		uint8_t *o = t->orig + (size_t)k * DEC_MAXSIZE;
		/* mixed content: ramp on even disks, seeded bytes on odd ones */
		if (k & 1) fill_prng(o, C_seed, nd, k, size); else fill_ramp(o, k, size);
		d[k] = o; col[k] = k;
	}
	for (int j = 0; j < 6; ++j) par[j] = t->orig + (size_t)(nd + j) * DEC_MAXSIZE;
	vp_parity(C_mode, nd, col, d, C_npmax, par, size);
	stripe_shape(&t->st, nd + np, size);
}

/* install T into the stripe */
static void chk_corrupt(chk_tls_t *t, int nt, const int *T)
{
	const int nb = t->nd + t->np;
	for (int b = 0; b < nb; ++b) memcpy(t->cur + (size_t)b * DEC_MAXSIZE, t->orig + (size_t)b * DEC_MAXSIZE, t->size);
	for (int i = 0; i < nt; ++i) {
		uint8_t *c = t->cur + (size_t)T[i] * DEC_MAXSIZE;
		if (t->variant == 0) {
			for (size_t p = 0; p < t->size; ++p) c[p] ^= (uint8_t)(1 + (p * 5 + T[i] * 11) % 255);
		} else {
			size_t p = (size_t)(T[i] * 23 + 5) % t->size;
			c[p] ^= (uint8_t)(0x40 >> (T[i] % 7));
		}
	}
	for (int b = 0; b < nb; ++b) memcpy(t->st.v[b], t->cur + (size_t)b * DEC_MAXSIZE, t->size);
}

static int chk_unmodified(chk_tls_t *t, const char *fn, const char *rp)
{
	char key[96];
	const int nb = t->nd + t->np;
	int bad = 0;
	for (int b = 0; b < nb; ++b)
		if (memcmp(t->st.v[b], t->cur + (size_t)b * DEC_MAXSIZE, t->size) != 0) {
			snprintf(key, sizeof(key), "C03/chk/%s/block-modified", fn);
			fail(key, rp, "nd=%d np=%d: block %d modified by %s", t->nd, t->np, b, fn);
			memcpy(t->st.v[b], t->cur + (size_t)b * DEC_MAXSIZE, t->size);
			bad = 1;
		}
	if (stripe_canary_bad(&t->st) >= 0) {
		snprintf(key, sizeof(key), "C03/chk/%s/canary", fn);
		fail(key, rp, "nd=%d np=%d: write outside a buffer by %s", t->nd, t->np, fn);
		stripe_shape(&t->st, nb, t->size);
		bad = 1;
	}
	return bad;
}

static int set_contains(const int *s, int n, int x)
{
	for (int i = 0; i < n; ++i) if (s[i] == x) return 1;
	return 0;
}

static void chk_replay(char *rp, size_t cap, chk_tls_t *t, int nt, const int *T, int nc, const int *C, int withc)
{
	char ts[64], cs[64];
	fmt_set(ts, sizeof(ts), T, nt);
	fmt_set(cs, sizeof(cs), C, nc);
	if (withc)
		snprintf(rp, cap, "cmd=chk mode=%d nds=%d sizes=%zu np=%d variant=%s corrupt=%s cand=%s seed=%llu", C_mode, t->nd, t->size,
			t->np, chk_vname(t->variant), ts, cs, (unsigned long long)C_seed);
	else
		snprintf(rp, cap, "cmd=chk mode=%d nds=%d sizes=%zu np=%d variant=%s corrupt=%s seed=%llu", C_mode, t->nd, t->size,
			t->np, chk_vname(t->variant), ts, (unsigned long long)C_seed);
}

/* raid_check on one (T, C) pair; the stripe already carries T */
static void chk_one_check(chk_tls_t *t, int nt, const int *T, int nc, const int *C)
{
	char rp[320], ts[64], cs[64];
	int cc[6];
	void *v[16];
	int missing = 0;
	for (int i = 0; i < nt; ++i) if (!set_contains(C, nc, T[i])) ++missing;
	for (int i = 0; i < nc; ++i) cc[i] = C[i];
	memcpy(v, t->st.v, sizeof(void *) * (t->nd + t->np));
	chk_replay(rp, sizeof(rp), t, nt, T, nc, C, 1);
	snprintf(t_case_key, sizeof(t_case_key), "C03/chk/raid_check");
	snprintf(t_case_replay, sizeof(t_case_replay), "%s", rp);
	int ret = raid_check(nc, cc, t->nd, t->np, t->size, v);
	t_case_key[0] = 0;
	++t->checks;
	fmt_set(ts, sizeof(ts), T, nt);
	fmt_set(cs, sizeof(cs), C, nc);
	if (missing == 0) {
		++t->accept_exp;
		if (ret != 0)
			fail("C03/chk/raid_check/rejects-true-failure-set", rp,
				"nd=%d np=%d variant=%s corrupted={%s} candidate={%s}: returned %d, candidate covers every corrupted block",
				t->nd, t->np, chk_vname(t->variant), ts, cs, ret);
	} else if (missing == 1) {
		++t->reject_exp;
		if (ret != -1)
			fail("C03/chk/raid_check/accepts-with-one-unlisted", rp,
				"nd=%d np=%d variant=%s corrupted={%s} candidate={%s}: returned %d although one corrupted block is not listed",
				t->nd, t->np, chk_vname(t->variant), ts, cs, ret);
	} else {
		++t->unconstrained;
		if (ret != 0 && ret != -1)
			fail("C03/chk/raid_check/bad-return-value", rp, "returned %d", ret);
	}
	chk_unmodified(t, "raid_check", rp);
}

static void chk_one_scan(chk_tls_t *t, int nt, const int *T)
{
	char rp[320], ts[64], rs[64];
	int ir[8] = { -9, -9, -9, -9, -9, -9, -9, -9 };
	void *v[16];
	memcpy(v, t->st.v, sizeof(void *) * (t->nd + t->np));
	chk_replay(rp, sizeof(rp), t, nt, T, 0, 0, 0);
	snprintf(t_case_key, sizeof(t_case_key), "C03/chk/raid_scan");
	snprintf(t_case_replay, sizeof(t_case_replay), "%s", rp);
	int r = raid_scan(ir, t->nd, t->np, t->size, v);
	t_case_key[0] = 0;
	++t->scans;
	fmt_set(ts, sizeof(ts), T, nt);
	if (r < 0 || r > nt) {
		fail("C03/chk/raid_scan/size", rp, "nd=%d np=%d variant=%s corrupted={%s}: returned %d, expected 0..%d",
			t->nd, t->np, chk_vname(t->variant), ts, r, nt);
	} else {
		fmt_set(rs, sizeof(rs), ir, r);
		int ordered = 1;
		for (int i = 0; i < r; ++i)
			if (ir[i] < 0 || ir[i] >= t->nd + t->np || (i && ir[i] <= ir[i - 1])) ordered = 0;
		if (!ordered)
			fail("C03/chk/raid_scan/malformed-set", rp, "nd=%d np=%d corrupted={%s}: returned set {%s}", t->nd, t->np, ts, rs);
		else {
			int cc[6];
			for (int i = 0; i < r; ++i) cc[i] = ir[i];
			if (raid_check(r, cc, t->nd, t->np, t->size, v) != 0)
				fail("C03/chk/raid_scan/set-not-accepted", rp, "nd=%d np=%d corrupted={%s}: returned {%s} which raid_check rejects",
					t->nd, t->np, ts, rs);
			if (2 * nt <= t->np) {
				++t->scans_exact;
				int same = r == nt;
				for (int i = 0; same && i < nt; ++i) if (ir[i] != T[i]) same = 0;
				if (!same)
					fail("C03/chk/raid_scan/wrong-set", rp,
						"nd=%d np=%d variant=%s corrupted={%s}: returned {%s}; within the unique decoding radius the answer must be the corrupted set",
						t->nd, t->np, chk_vname(t->variant), ts, rs);
			}
		}
	}
	chk_unmodified(t, "raid_scan", rp);
}

/* all T with ordinal % CHK_STRIPES == stripe of one (nd, np, size, variant); returns 1 if cut short */
static int chk_item(chk_tls_t *t, int nd, int np, size_t size, int variant, int stripe)
{
	const int nb = nd + np;
	long ord = 0;
	chk_build(t, nd, np, size, variant);
	for (int nt = 0; nt < np; ++nt) {
		int T[6];
		if (nt > nb) break;
		comb_first(nt, T);
		do {
			if (ord++ % CHK_STRIPES != stripe) continue;
			if (out_of_time()) return 1;
			chk_corrupt(t, nt, T);
			for (int nc = 0; nc < np; ++nc) {
				int C[6];
				if (nc > nb) break;
				comb_first(nc, C);
				do {
					chk_one_check(t, nt, T, nc, C);
				} while (nc && comb_next(nc, nb, C));
			}
			chk_one_scan(t, nt, T);
		} while (nt && comb_next(nt, nb, T));
	}
	return 0;
}

typedef struct { int nd, np, size, variant, stripe; double cost; int done, partial;
	long checks, accept_exp, reject_exp, unconstrained, scans, scans_exact; } chk_item_t;
static chk_item_t *C_items;
static int C_nitems;

static int chk_item_cmp(const void *a, const void *b)
{
	const chk_item_t *x = a, *y = b;
	if (x->cost != y->cost) return x->cost < y->cost ? 1 : -1;
	if (x->nd != y->nd) return y->nd - x->nd;
	if (x->np != y->np) return y->np - x->np;
	if (x->size != y->size) return x->size - y->size;
	if (x->variant != y->variant) return x->variant - y->variant;
	return x->stripe - y->stripe;
}

static void chk_work(int it, void *tls)
{
	chk_item_t *w = &C_items[it];
	chk_tls_t *t = tls;
	t->checks = t->accept_exp = t->reject_exp = t->unconstrained = t->scans = t->scans_exact = 0;
	w->partial = chk_item(t, w->nd, w->np, w->size, w->variant, w->stripe);
	w->checks = t->checks; w->accept_exp = t->accept_exp; w->reject_exp = t->reject_exp;
	w->unconstrained = t->unconstrained; w->scans = t->scans; w->scans_exact = t->scans_exact;
	w->done = 1;
}

static int cmd_chk(void)
{
	static int nds[32], sizes[8];
	int threads = (int)arg_int("threads", 16);
	int nnds = parse_intlist(arg_str("nds", "1-4"), nds, 32);
	int nsizes = parse_intlist(arg_str("sizes", "64"), sizes, 8);
	C_mode = (int)arg_int("mode", 0);
	C_npmax = C_mode ? 3 : 6;
	C_seed = (uint64_t)arg_int("seed", 0);
	for (int i = 0; i < nsizes; ++i)
		if (sizes[i] % 64 || sizes[i] <= 0 || sizes[i] > DEC_MAXSIZE) { fprintf(stderr, "bad size\n"); return 2; }

	raid_init();
	raid_mode(C_mode ? RAID_MODE_VANDERMONDE : RAID_MODE_CAUCHY);
	raid_zero(DEC_ZERO);

	/* single case */
	if (arg_str("corrupt", 0)) {
		int T[6], C[6];
		int nt = strcmp(arg_str("corrupt", "-"), "-") ? parse_intlist(arg_str("corrupt", ""), T, 6) : 0;
		chk_tls_t *t = chk_tls_new();
		chk_build(t, nds[0], (int)arg_int("np", 2), sizes[0], strcmp(arg_str("variant", "xor"), "byte") == 0);
		chk_corrupt(t, nt, T);
		if (arg_str("cand", 0)) {
			int nc = strcmp(arg_str("cand", "-"), "-") ? parse_intlist(arg_str("cand", ""), C, 6) : 0;
			chk_one_check(t, nt, T, nc, C);
		} else
			chk_one_scan(t, nt, T);
		say("OK chk single fails=%ld\n", g_nfail);
		return 0;
	}

	C_items = calloc((size_t)nnds * 6 * nsizes * 2 * CHK_STRIPES + 1, sizeof(chk_item_t));
	for (int ni = 0; ni < nnds; ++ni) {
		int nd = nds[ni];
		if (nd < 1 || nd > 10) continue;
		for (int np = 2; np <= C_npmax; ++np)
			for (int si = 0; si < nsizes; ++si)
				for (int variant = 0; variant < 2; ++variant)
					for (int s = 0; s < CHK_STRIPES; ++s) {
						chk_item_t *w = &C_items[C_nitems++];
						double sets = 0;
						for (int r = 0; r < np; ++r) sets += (double)binom(nd + np, r);
						w->nd = nd; w->np = np; w->size = sizes[si]; w->variant = variant; w->stripe = s;
						w->cost = sets * sets * sizes[si] * nd;
					}
	}
	qsort(C_items, C_nitems, sizeof(chk_item_t), chk_item_cmp);
	int skipped = pool_run(threads, C_nitems, chk_work, chk_tls_new, chk_tls_free);

	long tot[6] = { 0 };
	int partial = 0;
	/* one GEO line per (nd, np, size, variant), summed over its stripes */
	for (int it = 0; it < C_nitems; ++it) {
		chk_item_t *w = &C_items[it];
		if (w->stripe != 0) continue;
		long a[6] = { 0 };
		int ndone = 0, npart = 0;
		for (int j = 0; j < C_nitems; ++j) {
			chk_item_t *x = &C_items[j];
			if (x->nd != w->nd || x->np != w->np || x->size != w->size || x->variant != w->variant) continue;
			if (!x->done) continue;
			++ndone; npart += x->partial;
			a[0] += x->checks; a[1] += x->accept_exp; a[2] += x->reject_exp; a[3] += x->unconstrained; a[4] += x->scans; a[5] += x->scans_exact;
		}
		for (int q = 0; q < 6; ++q) tot[q] += a[q];
		partial += npart + (CHK_STRIPES - ndone);
		say("GEO nd=%d np=%d size=%d variant=%s mode=%d stripes_done=%d/%d partial=%d checks=%ld must_accept=%ld must_reject=%ld unconstrained=%ld scans=%ld scans_exact=%ld\n",
			w->nd, w->np, w->size, chk_vname(w->variant), C_mode, ndone, CHK_STRIPES, npart, a[0], a[1], a[2], a[3], a[4], a[5]);
	}
	say("%s chk mode=%d checks=%ld must_accept=%ld must_reject=%ld unconstrained=%ld scans=%ld scans_exact=%ld skipped_items=%d fails=%ld\n",
		(skipped || partial) ? "CAPPED" : "OK", C_mode, tot[0], tot[1], tot[2], tot[3], tot[4], tot[5], skipped, g_nfail);
	return 0;
}

#endif
