/*
 * raidmc_common.h - shared plumbing of the raidmc harness:
 *   key=value arguments, work-item thread pool with a wall-clock deadline,
 *   FAIL/OK line reporting, crash attribution, canary-framed aligned buffers,
 *   deterministic content generators and a private GF(2^8) built from vpref.
 *
 * Nothing in here reads a snapraid table.
 */
#ifndef RAIDMC_COMMON_H
#define RAIDMC_COMMON_H

#define _GNU_SOURCE
#include <stdint.h>
#include <stddef.h>
#include <stdio.h>
#include <stdlib.h>
#include <string.h>
#include <stdarg.h>
#include <signal.h>
#include <unistd.h>
#include <pthread.h>
#include <sys/time.h>
#include "vpref.h"

/****************************************************************************/
/* arguments: raidmc <cmd> key=value ... */

static int g_argc;
static char **g_argv;

static const char *arg_str(const char *key, const char *def)
{
	size_t n = strlen(key);
	for (int i = 2; i < g_argc; ++i)
		if (strncmp(g_argv[i], key, n) == 0 && g_argv[i][n] == '=')
			return g_argv[i] + n + 1;
	return def;
}

static long arg_int(const char *key, long def)
{
	const char *s = arg_str(key, 0);
	return s ? strtol(s, 0, 0) : def;
}

static double arg_dbl(const char *key, double def)
{
	const char *s = arg_str(key, 0);
	return s ? strtod(s, 0) : def;
}

/* parse "1,2,5-9" into out[]; returns count */
static int parse_intlist(const char *s, int *out, int max)
{
	int n = 0;
	while (s && *s) {
		char *e;
		long a = strtol(s, &e, 10), b = a;
		if (e == s) break;
		if (*e == '-') { s = e + 1; b = strtol(s, &e, 10); }
		for (long x = a; x <= b && n < max; ++x) out[n++] = (int)x;
		s = (*e == ',') ? e + 1 : e;
		if (*e != ',') break;
	}
	return n;
}

/* is `name` in the comma separated list (NULL list = everything) */
static int in_list(const char *list, const char *name)
{
	if (!list) return 1;
	size_t n = strlen(name);
	const char *p = list;
	while (*p) {
		const char *e = strchr(p, ',');
		size_t l = e ? (size_t)(e - p) : strlen(p);
		if (l == n && strncmp(p, name, n) == 0) return 1;
		if (!e) break;
		p = e + 1;
	}
	return 0;
}

/****************************************************************************/
/* time */

static double now_s(void)
{
	struct timeval tv;
	gettimeofday(&tv, 0);
	return tv.tv_sec + tv.tv_usec * 1e-6;
}

static double g_deadline; /* epoch seconds, 0 = none */

static int out_of_time(void)
{
	return g_deadline > 0 && now_s() > g_deadline;
}

/****************************************************************************/
/* reporting */

static pthread_mutex_t g_out_lock = PTHREAD_MUTEX_INITIALIZER;
static long g_nfail;          /* all failures */
static long g_nfail_printed;
#define FAIL_PRINT_MAX 40     /* lines; the count stays exact */
#define FAIL_PER_KEY 2

static struct { char key[160]; int n; } g_failkeys[256];
static int g_nfailkeys;

/*
 * FAIL <key> :: <text> :: <replay args>
 * key is structural (function + what failed); at most FAIL_PER_KEY lines per key.
 */
static void fail(const char *key, const char *replay, const char *fmt, ...)
{
	char text[512];
	va_list ap;
	va_start(ap, fmt);
	vsnprintf(text, sizeof(text), fmt, ap);
	va_end(ap);
	pthread_mutex_lock(&g_out_lock);
	++g_nfail;
	int k;
	for (k = 0; k < g_nfailkeys; ++k)
		if (strcmp(g_failkeys[k].key, key) == 0) break;
	if (k == g_nfailkeys && g_nfailkeys < 256) {
		snprintf(g_failkeys[k].key, sizeof(g_failkeys[k].key), "%s", key);
		g_failkeys[k].n = 0;
		++g_nfailkeys;
	}
	if (k < 256 && g_failkeys[k].n++ < FAIL_PER_KEY && g_nfail_printed < FAIL_PRINT_MAX) {
		++g_nfail_printed;
		printf("FAIL %s :: %s :: %s\n", key, text, replay);
		fflush(stdout);
	}
	pthread_mutex_unlock(&g_out_lock);
}

static void say(const char *fmt, ...)
{
	va_list ap;
	pthread_mutex_lock(&g_out_lock);
	va_start(ap, fmt);
	vprintf(fmt, ap);
	va_end(ap);
	pthread_mutex_unlock(&g_out_lock);
}

/*
 * Crash attribution: every worker keeps a description of the case it is executing;
 * BUG_ON (assert -> SIGABRT) or a wild store (SIGSEGV) inside the code under test is
 * reported as a FAIL of exactly that case, then the process exits.
 */
static __thread char t_case_key[160];
static __thread char t_case_replay[384];

static void crash_handler(int sig)
{
	char buf[800];
	int n = snprintf(buf, sizeof(buf), "FAIL %s/crash :: signal %d (%s) inside the code under test :: %s\nCRASHED\n",
		t_case_key[0] ? t_case_key : "harness", sig,
		sig == SIGABRT ? "abort/BUG_ON" : sig == SIGSEGV ? "segv" : sig == SIGBUS ? "bus" : sig == SIGILL ? "ill" : "fpe",
		t_case_replay);
	if (write(1, buf, n) < 0) { }
	_exit(3);
}

static void install_crash_handler(void)
{
	int sigs[] = { SIGABRT, SIGSEGV, SIGBUS, SIGILL, SIGFPE };
	for (unsigned i = 0; i < sizeof(sigs) / sizeof(sigs[0]); ++i)
		signal(sigs[i], crash_handler);
}

/****************************************************************************/
/* thread pool over an array of work items */

typedef void (*work_fn)(int item, void *tls);

static struct {
	work_fn fn;
	int nitems;
	volatile int next;
	volatile int done;
	volatile int skipped;
	void *(*tls_new)(void);
	void (*tls_free)(void *);
} g_pool;

static void *pool_worker(void *arg)
{
	(void)arg;
	void *tls = g_pool.tls_new ? g_pool.tls_new() : 0;
	for (;;) {
		int it = __sync_fetch_and_add(&g_pool.next, 1);
		if (it >= g_pool.nitems) break;
		if (out_of_time()) { __sync_fetch_and_add(&g_pool.skipped, 1); continue; }
		g_pool.fn(it, tls);
		__sync_fetch_and_add(&g_pool.done, 1);
	}
	if (g_pool.tls_free) g_pool.tls_free(tls);
	return 0;
}

/* run fn(0..nitems-1); items not started before the deadline are skipped; returns #skipped */
static int pool_run(int nthreads, int nitems, work_fn fn, void *(*tls_new)(void), void (*tls_free)(void *))
{
	pthread_t th[64];
	if (nthreads < 1) nthreads = 1;
	if (nthreads > 64) nthreads = 64;
	if (nthreads > nitems) nthreads = nitems > 0 ? nitems : 1;
	g_pool.fn = fn; g_pool.nitems = nitems; g_pool.next = 0; g_pool.done = 0; g_pool.skipped = 0;
	g_pool.tls_new = tls_new; g_pool.tls_free = tls_free;
	for (int i = 0; i < nthreads; ++i) pthread_create(&th[i], 0, pool_worker, 0);
	for (int i = 0; i < nthreads; ++i) pthread_join(th[i], 0);
	return g_pool.skipped;
}

/****************************************************************************/
/* private field arithmetic (shift-and-xor via vpref) */

static uint8_t MUL[256][256];
static uint8_t INV[256];

static void gf_setup(void)
{
	for (int a = 0; a < 256; ++a)
		for (int b = 0; b < 256; ++b)
			MUL[a][b] = vp_gfmul(a, b);
	for (int a = 1; a < 256; ++a)
		for (int b = 1; b < 256; ++b)
			if (MUL[a][b] == 1) INV[a] = b;
}

/* reference generator matrices, from their definitions */
static uint8_t REF_C[6][256]; /* 251 columns */
static uint8_t REF_V[3][256]; /* 255 columns */
#define NC_CAUCHY 251
#define NC_POWER 255

/****************************************************************************/
/*
 * Stripe of NB canary-framed blocks.  Layout (all 64-byte aligned):
 *   [canary 64][block 0][canary 64][block 1] ... [block nb-1][canary 64]
 * so any write one byte outside a block lands in a canary.
 */
#define CANARY 64
#define MAXBLK (255 + 6 + 2)

typedef struct {
	uint8_t *raw;      /* malloc'ed */
	uint8_t *base;     /* aligned */
	size_t cap;        /* bytes available from base */
	size_t size;       /* current block size */
	int nb;            /* current number of blocks */
	void *v[MAXBLK];   /* block pointers */
} stripe_t;

static uint8_t CANARY_TPL[CANARY];

static void canary_setup(void)
{
	for (int o = 0; o < CANARY; ++o) CANARY_TPL[o] = (uint8_t)(0xA5 ^ (o * 7));
}

static void stripe_alloc(stripe_t *s, int maxnb, size_t maxsize)
{
	s->cap = (size_t)maxnb * (maxsize + CANARY) + CANARY;
	s->raw = malloc(s->cap + 64);
	if (!s->raw) { fprintf(stderr, "out of memory\n"); exit(2); }
	s->base = (uint8_t *)(((uintptr_t)s->raw + 63) & ~(uintptr_t)63);
	s->nb = 0; s->size = 0;
}

static void stripe_free(stripe_t *s) { free(s->raw); }

/* (re)shape and (re)paint all canaries */
static void stripe_shape(stripe_t *s, int nb, size_t size)
{
	s->nb = nb; s->size = size;
	for (int k = 0; k <= nb; ++k) {
		uint8_t *c = s->base + (size_t)k * (size + CANARY);
		memcpy(c, CANARY_TPL, CANARY);
		if (k < nb) s->v[k] = c + CANARY;
	}
}

/* index of the first damaged canary zone, -1 if all intact */
static int stripe_canary_bad(const stripe_t *s)
{
	for (int k = 0; k <= s->nb; ++k)
		if (memcmp(s->base + (size_t)k * (s->size + CANARY), CANARY_TPL, CANARY) != 0) return k;
	return -1;
}

/* sentinel painted into buffers the code under test must not write */
static inline uint8_t sentinel_byte(int blk, size_t p) { return (uint8_t)(0xE1 + blk * 29 + p * 3); }

static void paint_sentinel(uint8_t *b, int blk, size_t size)
{
	for (size_t p = 0; p < size; ++p) b[p] = sentinel_byte(blk, p);
}

static int is_sentinel(const uint8_t *b, int blk, size_t size)
{
	for (size_t p = 0; p < size; ++p) if (b[p] != sentinel_byte(blk, p)) return 0;
	return 1;
}

/****************************************************************************/
/* content families */

/* basis: chunk b (64 bytes) holds byte b in every lane; size 16384 covers all 256 values */
#define BASIS_SIZE 16384
static void fill_basis(uint8_t *b, size_t size)
{
	for (size_t p = 0; p < size; ++p) b[p] = (uint8_t)(p / 64);
}

/* dense: never zero; value depends on chunk, disk and (per-disk rotated) lane */
static void fill_dense(uint8_t *b, int disk, size_t size)
{
	for (size_t p = 0; p < size; ++p)
		b[p] = (uint8_t)(1 + ((p / 64 + 37u * disk + 4u * ((p + disk) % 64)) % 255));
}

static inline uint64_t splitmix(uint64_t *x)
{
	uint64_t z = (*x += 0x9E3779B97F4A7C15ULL);
	z = (z ^ (z >> 30)) * 0xBF58476D1CE4E5B9ULL;
	z = (z ^ (z >> 27)) * 0x94D049BB133111EBULL;
	return z ^ (z >> 31);
}

/* prng: bytes only; which cases run never depends on it */
static void fill_prng(uint8_t *b, uint64_t seed, int nd, int disk, size_t size)
{
	uint64_t x = seed * 0x100000001B3ULL + (uint64_t)nd * 1000003 + (uint64_t)disk * 7919 + size;
	for (size_t p = 0; p < size; p += 8) {
		uint64_t r = splitmix(&x);
		memcpy(b + p, &r, 8);
	}
}

/* first differing byte, -1 if equal */
static long first_diff(const uint8_t *a, const uint8_t *b, size_t size)
{
	if (memcmp(a, b, size) == 0) return -1;
	for (size_t p = 0; p < size; ++p) if (a[p] != b[p]) return (long)p;
	return -1;
}

/* combinations in lexicographic order over 0..n-1 */
static void comb_first(int r, int *c) { for (int i = 0; i < r; ++i) c[i] = i; }
static int comb_next(int r, int n, int *c)
{
	int i = r - 1;
	while (i >= 0 && c[i] == n - r + i) --i;
	if (i < 0) return 0;
	++c[i];
	for (++i; i < r; ++i) c[i] = c[i - 1] + 1;
	return 1;
}

static char *fmt_set(char *buf, size_t cap, const int *s, int n)
{
	size_t o = 0;
	buf[0] = 0;
	for (int i = 0; i < n && o + 8 < cap; ++i)
		o += snprintf(buf + o, cap - o, "%s%d", i ? "," : "", s[i]);
	if (n == 0) snprintf(buf, cap, "-");
	return buf;
}

#endif
