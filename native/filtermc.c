/*
 * filtermc - drives the real include/exclude filter functions of snapraid (cmdline/elem.c).
 * protocol on stdin (one command per line, fields separated by a single TAB):
 *   C                 clear the rule list
 *   R <dir> <pattern> append a rule (dir = + or -);  answers "R ok" / "R invalid"
 *   P <sub>  D <sub>  E <sub>     filter_path / filter_subdir / filter_emptydir -> "0" (included) or "-1"
 */
#include "portable.h"
#include "elem.h"
#include "support.h"

int main(void)
{
	char line[8192];
	tommy_list list;
	tommy_list_init(&list);
	while (fgets(line, sizeof(line), stdin)) {
		size_t n = strlen(line);
		while (n && (line[n - 1] == '\n' || line[n - 1] == '\r')) line[--n] = 0;
		if (line[0] == 'C') {
			tommy_list_foreach(&list, (tommy_foreach_func*)filter_free);
			tommy_list_init(&list);
			puts("C ok");
		} else if (line[0] == 'R') {
			int dir = line[2] == '+' ? 1 : -1;
			struct snapraid_filter* f = filter_alloc_file(dir, line + 4);
			if (!f) {
				puts("R invalid");
			} else {
				tommy_list_insert_tail(&list, &f->node, f);
				puts("R ok");
			}
		} else if (line[0] == 'P') {
			printf("%d\n", filter_path(&list, 0, "d1", line + 2));
		} else if (line[0] == 'D') {
			printf("%d\n", filter_subdir(&list, 0, "d1", line + 2));
		} else if (line[0] == 'E') {
			printf("%d\n", filter_emptydir(&list, 0, "d1", line + 2));
		} else if (line[0] == 'Q') {
			break;
		}
		if (line[0] == 'F') fflush(stdout);
	}
	fflush(stdout);
	return 0;
}
