#ifndef VPREF_H
#define VPREF_H
#include <stdint.h>
#include <stddef.h>
uint8_t vp_gfmul(uint8_t a, uint8_t b);
uint8_t vp_gfpow(uint8_t a, unsigned e);
uint8_t vp_gfinv(uint8_t a);
const uint8_t* vp_gfmul_row(uint8_t a);
void vp_cauchy(uint8_t m[6][256]);
void vp_vandermonde(uint8_t m[3][256]);
void vp_parity(int mode, int nd, const int* col, const uint8_t* const* data, int np, uint8_t** parity, size_t size);
void vp_parity_flat(int mode, int nd, const int* col, const uint8_t* data, int np, uint8_t* parity, size_t size);
uint32_t vp_crc32c(uint32_t crc, const uint8_t* p, size_t size);
void vp_murmur3(const uint8_t* data, size_t size, const uint8_t seed[16], uint8_t out[16]);
void vp_spooky2(const uint8_t* data, size_t size, const uint8_t seed[16], uint8_t out[16]);
void vp_hash(int kind, const uint8_t* data, size_t size, const uint8_t seed[16], uint8_t out[16]);
#endif
